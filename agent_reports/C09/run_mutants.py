#!/venv/bin/python
"""Variant of bin/mutants that takes the base tree from MUT_BASE (default /repo): the C09 mutants are written against
the text of the FIXED scenario.py, so until the three C09 patches are in /repo run
    MUT_BASE=/tmp/wt-c09 MUT_PAR=1 MUT_NPROC=4 /verif/agent_reports/C09/run_mutants.py C09"""
import json, os, shutil, subprocess, sys, tempfile, time
from concurrent.futures import ThreadPoolExecutor
HERE = "/verif"
BASE = os.environ.get("MUT_BASE", "/repo")
prop = sys.argv[1].upper()
only = set(sys.argv[2:])
muts = json.load(open(os.path.join(HERE, "mutants", prop + ".json")))
def run(m):
    if only and m["name"] not in only:
        return None
    d = tempfile.mkdtemp(prefix="crmut.", dir="/var/tmp")
    try:
        shutil.copytree(os.path.join(BASE, "commonroad"), os.path.join(d, "commonroad"),
                        ignore=shutil.ignore_patterns("__pycache__"))
        p = os.path.join(d, m["file"])
        s = open(p).read()
        n = s.count(m["old"])
        if n != m.get("count", 1):
            return (m["name"], "PATCH-ERROR old occurs %d times" % n, 0)
        open(p, "w").write(s.replace(m["old"], m["new"]))
        t0 = time.time()
        # shadow home: bin/check derives VERIF_HOME from its own location, so replays written for this mutant stay
        # private (otherwise recipes found on one mutant are replayed on - and catch - the next one)
        home = os.path.join(d, "home")
        os.makedirs(os.path.join(home, "bin"))
        shutil.copy(os.path.join(HERE, "bin", "check"), os.path.join(home, "bin", "check"))
        os.symlink(os.path.join(HERE, "crverif"), os.path.join(home, "crverif"))
        env = dict(os.environ, VERIF_REPO=d, VERIF_NPROC=os.environ.get("MUT_NPROC", "8"))
        args = [os.path.join(home, "bin", "check"), prop, "--no-evidence"]
        for f in m.get("facets", []):
            args += ["--facet", f]
        r = subprocess.run(args, env=env, capture_output=True, text=True)
        buckets = sorted({l.split("bucket=")[1] for l in r.stdout.splitlines() if l.startswith("violation ")})
        status = "caught" if r.returncode == 1 else ("MISSED" if r.returncode == 0 else "HARNESS-ERROR rc=%d" % r.returncode)
        if r.returncode not in (0, 1):
            sys.stderr.write(r.stdout[-3000:] + r.stderr[-3000:])
        nrep = len(os.listdir(os.path.join(home, "replays", prop))) if os.path.isdir(os.path.join(home, "replays", prop)) else 0
        return (m["name"], status + " " + ",".join(buckets)[:400] + " [%d replays]" % nrep, time.time() - t0)
    finally:
        shutil.rmtree(d, ignore_errors=True)
with ThreadPoolExecutor(int(os.environ.get("MUT_PAR", "2"))) as ex:
    res = [r for r in ex.map(run, muts) if r]
for name, status, t in res:
    print("%-45s %s (%.0fs)" % (name, status, t))
bad = [r for r in res if not r[1].startswith("caught")]
sys.exit(1 if bad else 0)
