"""Class histogram of the C10 facets (helper for the report): PYTHONPATH=<tree>:/verif python stats.py [n]"""
import sys, collections
import hypothesis
from hypothesis import given, settings, HealthCheck
from crverif.core import Ctx, Discard, Violation, normalise
from crverif.props import c10
n = int(sys.argv[1]) if len(sys.argv) > 1 else 300
for f in c10.FACETS:
    ctx = Ctx("C10", f.name, "quick", 1)
    @hypothesis.seed(1)
    @settings(max_examples=n, database=None, deadline=None, suppress_health_check=list(HealthCheck))
    @given(f.strategy("quick"))
    def t(r):
        r = normalise(r)
        ctx.begin(r)
        try:
            f.check(r, ctx)
        except Discard:
            pass
        except Violation as v:
            ctx.label('VIOLATION ' + v.kind)
    t()
    print("==", f.name, "cases", ctx.cases, "nontrivial", ctx.nontrivial_cases, "band", ctx.band)
    for k, v in sorted(ctx.classes.items()):
        print("   %-45s %d" % (k, v))
