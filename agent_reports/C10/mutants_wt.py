#!/venv/bin/python
"""Same protocol as bin/mutants (scratch copy of MUT_SRC, default /repo), but the check runs through
agent_reports/C10/check_with_known.sh, i.e. with the two C10 known-finding entries (Circle half radius) registered, so
that a mutant is not 'caught' merely because of the recorded finding of the pinned tree. Obsolete once the entries of
agent_reports/C10/known_findings_entries.json are in /verif/known_findings.json (then: bin/mutants C10).
usage: MUT_PAR=2 MUT_NPROC=4 agent_reports/C10/mutants_wt.py C10 [name ...]"""
import json, os, shutil, subprocess, sys, tempfile, time
from concurrent.futures import ThreadPoolExecutor
HERE = "/verif"
SRC = os.environ.get("MUT_SRC", "/repo")
prop = sys.argv[1].upper()
only = set(sys.argv[2:])
muts = json.load(open(os.path.join(HERE, "mutants", prop + ".json")))
def run(m):
    if only and m["name"] not in only:
        return None
    d = tempfile.mkdtemp(prefix="crmut.", dir="/var/tmp")
    home = tempfile.mkdtemp(prefix="crmuthome.", dir="/var/tmp")
    try:
        shutil.copytree(os.path.join(SRC, "commonroad"), os.path.join(d, "commonroad"),
                        ignore=shutil.ignore_patterns("__pycache__"))
        p = os.path.join(d, m["file"])
        s = open(p).read()
        n = s.count(m["old"])
        if n != m.get("count", 1):
            return (m["name"], "PATCH-ERROR old occurs %d times" % n, 0)
        open(p, "w").write(s.replace(m["old"], m["new"]))
        t0 = time.time()
        env = dict(os.environ, VERIF_REPO=d, VERIF_NPROC=os.environ.get("MUT_NPROC", "4"))
        r = subprocess.run([os.path.join(HERE, "agent_reports", "C10", "check_with_known.sh"), prop, "--no-evidence"], env=env, capture_output=True,
                           text=True)
        buckets = sorted({l.split("bucket=")[1] for l in r.stdout.splitlines() if l.startswith("violation ")})
        status = "caught" if r.returncode == 1 else ("MISSED" if r.returncode == 0 else "HARNESS-ERROR rc=%d" % r.returncode)
        if r.returncode not in (0, 1):
            sys.stderr.write(r.stdout[-3000:] + r.stderr[-3000:])
        return (m["name"], status + " " + ",".join(buckets)[:600], time.time() - t0)
    finally:
        shutil.rmtree(d, ignore_errors=True)
        shutil.rmtree(home, ignore_errors=True)
with ThreadPoolExecutor(int(os.environ.get("MUT_PAR", "2"))) as ex:
    res = [r for r in ex.map(run, muts) if r]
for name, status, t in res:
    print("%-40s %s (%.0fs)" % (name, status, t))
sys.exit(1 if [r for r in res if not r[1].startswith("caught")] else 0)
