#!/bin/sh
# bin/check with a scratch VERIF_HOME (/tmp/c10-home) whose known_findings.json already contains the two C10 entries
# of agent_reports/C10/known_findings_entries.json. usage: VERIF_REPO=<tree> agent_reports/C10/check_with_known.sh C10 ...
REPO="${VERIF_REPO:-/repo}"
export PYTHONHASHSEED=0 MPLBACKEND=Agg PYTHONPATH="$REPO:/verif" VERIF_REPO="$REPO" VERIF_HOME=/tmp/c10-home
export OMP_NUM_THREADS=1 OPENBLAS_NUM_THREADS=1 MKL_NUM_THREADS=1 PYTHONDONTWRITEBYTECODE=1 COMMONROAD_IO_VERIF=1
cd /verif && exec /venv/bin/python -m crverif.runner "$@"
