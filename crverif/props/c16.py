"""C16 - Interval and AngleInterval behave as the closed sets they denote."""
import copy
import itertools
import math
import pickle
from fractions import Fraction

import numpy as np
from hypothesis import strategies as st

from commonroad.common.util import AngleInterval, Interval

from crverif.core import Facet, Violation

RULE = "closed-set semantics: Fraction-exact for plain intervals, arc semantics with a 1e-9 band at arc ends for angles"
ASSUMPTIONS = ["plain Interval: finite int/float ends, start <= end", "AngleInterval: ends in [-2pi, 2pi], length < 2pi",
               "angle membership within 1e-9 of an arc end is a don't-care (2pi is not representable)",
               "arithmetic image ends are computed with the same float operation (the claim is which end goes where)"]
TWO_PI = 2 * math.pi
BAND = 1e-9


def F(x):
    return Fraction(x)


# ------------------------------------------------------------------------------------------------ value strategies
def num():
    return st.one_of(
        st.integers(-50, 50),
        st.floats(-100, 100, allow_nan=False),
        st.floats(-1e-3, 1e-3, allow_nan=False),
        st.floats(-1e12, 1e12, allow_nan=False),
        st.integers(-10 ** 9, 10 ** 9),
    )


def interval_pair():
    return st.tuples(num(), num()).map(lambda p: sorted(p, key=lambda v: Fraction(v)))


def related(a, b):
    """Query values placed relative to [a, b]: ends, neighbours of ends, interior, outside."""
    fa, fb = float(a), float(b)
    lo = min(fa, fb)
    hi = max(fa, fb)
    span = max(hi - lo, 1e-3)
    cands = [a, b, math.nextafter(fa, -math.inf), math.nextafter(fa, math.inf), math.nextafter(fb, -math.inf),
             math.nextafter(fb, math.inf), (fa + fb) / 2]
    return st.one_of(st.sampled_from(cands), st.floats(lo - span, hi + span, allow_nan=False), num(),
                     st.integers(math.floor(lo) - 2, math.ceil(hi) + 2))


def wrap_number(kind, v):
    if kind == "np":
        return np.float64(v) if isinstance(v, float) else np.int64(v)
    return v


# ------------------------------------------------------------------------------------------------ plain predicates
def s_plain_predicates(tier):
    return interval_pair().flatmap(lambda ab: st.fixed_dictionaries({
        "a": st.just(ab[0]), "b": st.just(ab[1]),
        "x": related(ab[0], ab[1]),
        "xkind": st.sampled_from(["py", "py", "np"]),
        "c": related(ab[0], ab[1]), "d": related(ab[0], ab[1]),
        "via": st.one_of(st.none(), st.none(), st.sampled_from(["end", "start"])),
    }))


def check_plain_predicates(r, ctx):
    a, b, x = r["a"], r["b"], r["x"]
    c, d = sorted([r["c"], r["d"]], key=F)
    iv = Interval(a, b)
    if r.get("via") == "end":      # the same bounds reached through the public setters after a first query
        iv = Interval(a, a)
        iv.contains(x), iv.overlaps(Interval(c, d))
        iv.end = b
        ctx.label("bounds-via-setter")
    elif r.get("via") == "start":
        iv = Interval(b, b)
        iv.contains(x), iv.overlaps(Interval(c, d))
        iv.start = a
        ctx.label("bounds-via-setter")
    xq = wrap_number(r["xkind"], x)
    exp = F(a) <= F(x) <= F(b)
    got = iv.contains(xq)
    if bool(got) != exp:
        raise Violation("contains-number", "Interval(%r,%r).contains(%r) = %r, expected %r" % (a, b, xq, got, exp))
    got = xq in iv
    if bool(got) != exp:
        raise Violation("in-number", "%r in Interval(%r,%r) = %r, expected %r" % (xq, a, b, got, exp))
    other = Interval(c, d)
    exp_c = F(a) <= F(c) and F(d) <= F(b)
    got = iv.contains(other)
    if bool(got) != exp_c:
        raise Violation("contains-interval", "Interval(%r,%r).contains(Interval(%r,%r)) = %r" % (a, b, c, d, got))
    got = other in iv
    if bool(got) != exp_c:
        raise Violation("in-interval", "Interval(%r,%r) in Interval(%r,%r) = %r" % (c, d, a, b, got))
    lo, hi = max(F(a), F(c)), min(F(b), F(d))
    exp_o = lo <= hi
    for p, q, name in ((iv, other, "ab-cd"), (other, iv, "cd-ab")):
        got = p.overlaps(q)
        if bool(got) != exp_o:
            raise Violation("overlaps", "%s: Interval(%r,%r) / Interval(%r,%r) overlaps = %r expected %r" % (
                name, a, b, c, d, got, exp_o))
        got = p.intersection(q)
        if exp_o:
            if got is None or F(got.start) != lo or F(got.end) != hi:
                raise Violation("intersection", "%s: [%r,%r] & [%r,%r] = %s" % (
                    name, a, b, c, d, None if got is None else (got.start, got.end)))
        elif got is not None:
            raise Violation("intersection-nonempty", "%s: [%r,%r] & [%r,%r] = %s" % (
                name, a, b, c, d, (got.start, got.end)))
    if iv.length != b - a:
        raise Violation("length", "%r" % iv.length)
    span = max(float(F(b) - F(a)), 1e-300)
    near = min(abs(float(F(x) - F(a))), abs(float(F(x) - F(b)))) <= 0.1 * span
    if F(x) in (F(a), F(b)):
        ctx.label("x-at-end")
    if lo == hi:
        ctx.label("touching")
    ctx.label("x-in" if exp else "x-out")
    ctx.label("overlap" if exp_o else "disjoint")
    if near or lo == hi or isinstance(x, int) or r["xkind"] == "np":
        ctx.nontrivial()


# ------------------------------------------------------------------------------------------------ plain arithmetic
def scalar():
    return st.one_of(st.integers(-20, 20), st.floats(-100, 100, allow_nan=False),
                     st.floats(-1e-3, 1e-3, allow_nan=False), st.sampled_from([0, 0.0, -0.0, 1, -1, 0.5, -0.5]))


def s_plain_arith(tier):
    return st.fixed_dictionaries({
        "ab": st.tuples(st.one_of(st.integers(-50, 50), st.floats(-1e6, 1e6, allow_nan=False)),
                        st.one_of(st.integers(-50, 50), st.floats(-1e6, 1e6, allow_nan=False))).map(
            lambda p: sorted(p, key=F)),
        "k": scalar(),
        "op": st.sampled_from(["add", "sub", "mul", "div", "round"]),
        "n": st.one_of(st.none(), st.integers(-3, 12)),
    })


def check_plain_arith(r, ctx):
    (a, b), k, op = r["ab"], r["k"], r["op"]
    iv = Interval(a, b)
    if op == "add":
        res, ends = iv + k, (a + k, b + k)
    elif op == "sub":
        res, ends = iv - k, (a - k, b - k)
    elif op == "mul":
        res, ends = iv * k, (a * k, b * k)
    elif op == "div":
        if k == 0:
            ctx.discard("div-by-zero")
        res, ends = iv / k, (a / k, b / k)
    else:
        n = r["n"]
        res, ends = round(iv, n), (round(a, n), round(b, n))
    if any(isinstance(e, float) and (math.isinf(e) or math.isnan(e)) for e in ends):
        ctx.discard("overflow")
    lo, hi = sorted(ends, key=F)
    if not isinstance(res, Interval):
        raise Violation("arith-type", "%s gives %r" % (op, type(res)))
    if F(res.start) != F(lo) or F(res.end) != F(hi) or not res.start <= res.end:
        raise Violation("arith-%s" % op, "Interval(%r,%r) %s %r -> (%r,%r), expected (%r,%r)" % (
            a, b, op, k if op != "round" else r["n"], res.start, res.end, lo, hi))
    ctx.label(op)
    if op in ("mul", "div") and F(k) < 0:
        ctx.label("negative-scalar")
        ctx.nontrivial()
    elif op == "round" or k == 0 or isinstance(k, int):
        ctx.nontrivial()


# ------------------------------------------------------------------------------------------------ angle intervals
def arc_signed_distance(start, end, th):
    """<0: inside by that margin, >0: outside by that margin (min over 2pi-images)."""
    best = None
    for k in range(-4, 5):
        v = th + TWO_PI * k
        if start <= v <= end:
            d = -min(v - start, end - v)
        else:
            d = min(abs(v - start), abs(v - end))
        if best is None or d < best:
            best = d
    return best


def angle_interval():
    """(start, end) with ends in [-2pi, 2pi], 0 <= end-start < 2pi; length classes 0, short, pi, long."""
    def build(t):
        start, length, ints = t
        if ints:
            s = int(round(start))
            e = s + int(length)
            s, e = max(-6, min(6, s)), max(-6, min(6, e))
            if e < s:
                s, e = e, s
            return [s, e]
        end = start + length
        if end > TWO_PI:
            start, end = start - (end - TWO_PI), TWO_PI
        start = max(start, -TWO_PI)
        return [start, end]

    length = st.one_of(st.floats(0.01, math.pi, allow_nan=False), st.just(0.0), st.just(math.pi),
                       st.floats(math.pi, TWO_PI - 1e-6, allow_nan=False), st.floats(1e-9, 1e-3),
                       st.sampled_from([math.pi - 1e-9, math.pi + 1e-9, math.pi / 2, 3.0, 3.5, 6.0]))
    return st.tuples(st.floats(-TWO_PI, TWO_PI, allow_nan=False), length, st.sampled_from([False] * 5 + [True])).map(
        build).filter(lambda se: se[1] - se[0] < TWO_PI)


VIA = st.one_of(st.none(), st.none(), st.tuples(
    st.sampled_from(["widen-end", "widen-start", "shrink-end", "shrink-start", "deepcopy", "copy", "pickle"]),
    st.floats(0.05, 0.95)).map(list))


def angle_via(s, e, via):
    """AngleInterval denoting the arc [s, e]; with `via` it reaches these bounds through the public start / end setters
    after it has already answered a membership query with other bounds."""
    ai = AngleInterval(s, e)
    if not via:
        return ai
    mode, f = via
    if mode in ("deepcopy", "copy", "pickle"):
        # the interval under test is a copy (states and goal regions are copied all the time)
        c = copy.deepcopy(ai) if mode == "deepcopy" else copy.copy(ai) if mode == "copy" else pickle.loads(
            pickle.dumps(ai))
        if type(c) is not AngleInterval or c.start != ai.start or c.end != ai.end:
            raise Violation("angle-copy-differs", "%s of AngleInterval(%r, %r) is %s(%r, %r)" % (
                mode, ai.start, ai.end, type(c).__name__, c.start, c.end))
        return c
    ns, ne = ai.start, ai.end
    room = TWO_PI - (ne - ns)
    if mode == "widen-end":
        b = AngleInterval(ns, ns + f * (ne - ns))
    elif mode == "widen-start":
        b = AngleInterval(ns + f * (ne - ns), ne)
    elif mode == "shrink-end":
        b = AngleInterval(ns, min(ne + 0.9 * f * room, TWO_PI))
    else:
        b = AngleInterval(max(ns - 0.9 * f * room, -TWO_PI), ne)
    probe = (ns + ne) / 2
    b.contains(probe), (probe in b), b.contains(AngleInterval(probe, probe))
    if mode.endswith("end"):
        if b.start != ns:
            return ai
        b.end = ne
    else:
        if b.end != ne:
            return ai
        b.start = ns
    if b.start != ns or b.end != ne:
        raise Violation("angle-setter-bounds", "after %s: (%r, %r), expected (%r, %r)" % (mode, b.start, b.end, ns, ne))
    return b


def angle_query(se):
    s, e = float(se[0]), float(se[1])
    ln = e - s
    rel = st.one_of(
        st.floats(0, 1).map(lambda f: s + f * ln),
        st.sampled_from([s, e, s - 1e-6, s + 1e-6, e - 1e-6, e + 1e-6, s - 0.3, e + 0.3, (s + e) / 2,
                         (s + e) / 2 + math.pi]),
        st.floats(-TWO_PI, TWO_PI, allow_nan=False),
    )
    img = st.tuples(rel, st.sampled_from([0, 0, 0, -2, -1, 1, 2])).map(lambda t: t[0] + TWO_PI * t[1])
    return st.one_of(img, st.integers(-12, 12))


def s_angle_membership(tier):
    return angle_interval().flatmap(lambda se: st.fixed_dictionaries({
        "se": st.just(se), "th": st.lists(angle_query(se), min_size=1, max_size=6),
        "np": st.booleans(), "via": VIA}))


def classify_arc(ctx, s, e):
    ln = e - s
    if ln == 0:
        ctx.label("len-0")
    elif ln < math.pi:
        ctx.label("len<pi")
    elif ln == math.pi:
        ctx.label("len=pi")
    else:
        ctx.label("len>pi")


def check_angle_membership(r, ctx):
    s, e = r["se"]
    ai = angle_via(s, e, r.get("via"))
    if r.get("via"):
        ctx.label("bounds-via-setter")
    if not (math.isclose(ai.end - ai.start, e - s, abs_tol=1e-12)):
        raise Violation("angle-ctor-length", "AngleInterval(%r,%r) -> (%r,%r)" % (s, e, ai.start, ai.end))
    classify_arc(ctx, s, e)
    nt = (e - s) > math.pi
    for th in r["th"]:
        if abs(th) > 4 * math.pi:
            continue
        d = arc_signed_distance(float(s), float(e), float(th))
        q = th
        if r["np"]:
            q = np.float64(th) if isinstance(th, float) else np.int64(th)
        for name, call in (("contains", lambda: ai.contains(q)), ("in", lambda: q in ai)):
            got = call()
            if F(s) <= F(th) <= F(e):
                if not got:  # closed interval: ends included, no rounding involved for the k=0 image
                    raise Violation("angle-%s-closed" % name, "AngleInterval(%r,%r).%s(%r) = %r" % (s, e, name, q, got))
                continue
            if abs(d) <= BAND:
                ctx.band_case("arc-end-band")
                continue
            exp = d < 0
            if bool(got) != exp:
                raise Violation("angle-%s-%s" % (name, "int" if isinstance(th, int) else "float"),
                                "AngleInterval(%r,%r).%s(%r) = %r, expected %r (signed distance %g)" % (
                                    s, e, name, q, got, exp, d))
        if isinstance(th, int):
            ctx.label("int-query")
            nt = True
        if abs(d) < 0.1 * max(e - s, 1e-3):
            nt = True
            ctx.label("near-end")
        if not (s <= th <= e) and d < 0:
            ctx.label("inside-after-wrap")
    if nt:
        ctx.nontrivial()


def s_angle_contains_interval(tier):
    def inner(se):
        s, e = float(se[0]), float(se[1])
        ln = e - s
        frac = st.one_of(st.floats(0.02, 0.98), st.floats(0.02, 0.98), st.floats(-0.3, -0.02), st.floats(1.02, 1.3),
                         st.sampled_from([0.0, 1.0]))
        sub = st.tuples(frac, frac, st.sampled_from([0, 0, -1, 1])).map(
            lambda t: [s + min(t[0], t[1]) * ln + TWO_PI * t[2], s + max(t[0], t[1]) * ln + TWO_PI * t[2]])
        free = angle_interval()
        return st.one_of(sub, free)
    return angle_interval().flatmap(lambda se: st.fixed_dictionaries({"se": st.just(se), "inner": inner(se),
                                                                      "via": VIA}))


def check_angle_contains_interval(r, ctx):
    s, e = r["se"]
    c, d = r["inner"]
    if d - c >= TWO_PI - 1e-9:
        ctx.discard("inner-too-long")
    if not (-TWO_PI <= c <= d <= TWO_PI):
        # bring the inner arc into the admissible window by a multiple of 2pi, if possible
        for k in (-1, 1, -2, 2):
            if -TWO_PI <= c + k * TWO_PI <= d + k * TWO_PI <= TWO_PI:
                c, d = c + k * TWO_PI, d + k * TWO_PI
                break
        else:
            ctx.discard("inner-not-admissible")
    outer = angle_via(s, e, r.get("via"))
    inner = AngleInterval(c, d)
    if r.get("via"):
        ctx.label("bounds-via-setter")
    # truth: every point of the inner arc lies in the outer arc  <=>  some image of [c,d] is inside [s,e]
    best = None
    for k in range(-3, 4):
        cs, ds = c + k * TWO_PI, d + k * TWO_PI
        margin = min(cs - s, e - ds)  # >= 0 iff contained for this image
        if best is None or margin > best:
            best = margin
    got = outer.contains(inner)
    if F(s) <= F(c) and F(d) <= F(e):
        if not got:  # closed: k=0 image contained exactly, no rounding involved
            raise Violation("angle-contains-interval-closed", "AngleInterval(%r,%r).contains(AngleInterval(%r,%r)) = %r"
                            % (s, e, c, d, got))
        best = max(best, 0.0)
    elif abs(best) <= BAND:
        ctx.band_case("arc-end-band")
        return
    exp = best >= 0
    if bool(got) != exp:
        raise Violation("angle-contains-interval", "AngleInterval(%r,%r).contains(AngleInterval(%r,%r)) = %r, "
                        "expected %r (margin %g)" % (s, e, c, d, got, exp, best))
    classify_arc(ctx, s, e)
    ctx.label("contained" if exp else "not-contained")
    if e - s > math.pi or abs(best) < 0.1 * max(e - s, 1e-3):
        ctx.nontrivial()


def s_angle_shift(tier):
    from crverif.gen.values import angle
    return st.fixed_dictionaries({"se": angle_interval(), "a": angle(), "op": st.sampled_from(["add", "sub"]),
                                  "via": VIA})


def check_angle_shift(r, ctx):
    s, e = r["se"]
    a = r["a"]
    ai = angle_via(s, e, r.get("via"))
    res = ai + a if r["op"] == "add" else ai - a
    sh = a if r["op"] == "add" else -a
    if not isinstance(res, AngleInterval):
        raise Violation("shift-type", repr(type(res)))
    if not (-TWO_PI <= res.start <= res.end <= TWO_PI):
        raise Violation("shift-invalid", "(%r,%r) shifted by %r -> (%r,%r)" % (s, e, sh, res.start, res.end))
    if abs((res.end - res.start) - (e - s)) > 1e-12:
        raise Violation("shift-length", "(%r,%r) shifted by %r -> (%r,%r)" % (s, e, sh, res.start, res.end))
    diff = math.remainder(res.start - (s + sh), TWO_PI)
    if abs(diff) > 1e-9:
        raise Violation("shift-start", "(%r,%r) shifted by %r -> (%r,%r)" % (s, e, sh, res.start, res.end))
    classify_arc(ctx, s, e)
    if not (-TWO_PI <= s + sh and e + sh <= TWO_PI):
        ctx.label("needs-renormalisation")
        ctx.nontrivial()
    elif e - s > math.pi:
        ctx.nontrivial()


def s_rejection(tier):
    return st.fixed_dictionaries({
        "kind": st.sampled_from(["plain", "angle-order", "angle-long"]),
        "a": st.one_of(st.integers(-6, 6), st.floats(-6.0, 6.0, allow_nan=False)),
        "gap": st.one_of(st.integers(1, 6), st.floats(1e-9, 6.0, allow_nan=False)),
        "extra": st.floats(1e-6, 3.0),
    })


def check_rejection(r, ctx):
    a, gap = r["a"], r["gap"]
    if r["kind"] == "plain":
        args, cls = (a + gap, a), Interval
        if not F(a + gap) > F(a):
            ctx.discard("gap-lost")
    elif r["kind"] == "angle-order":
        args, cls = (a, a - gap), AngleInterval
        if not (a - gap >= -TWO_PI) or not F(a - gap) < F(a):
            ctx.discard("outside")
    else:
        args, cls = (-TWO_PI + 0.0, -TWO_PI + TWO_PI + r["extra"]), AngleInterval
    try:
        obj = cls(*args)
    except Exception:
        ctx.label("rejected-" + r["kind"])
        ctx.nontrivial()
        return
    raise Violation("not-rejected-" + r["kind"], "%s%r accepted -> (%r, %r)" % (cls.__name__, args, obj.start, obj.end))


# ------------------------------------------------------------------------------------------------ exhaustive grid
def enumerate_grid(tier):
    step = math.pi / 8
    for ks in range(-16, 17):
        for j in range(0, 16):
            if ks + j > 16:
                continue
            yield {"se": [ks * step, (ks + j) * step], "th": [m * step + off for m in range(-16, 17)
                                                              for off in (0.0, 0.01, -0.01)], "np": False}


FACETS = [
    Facet("plain-predicates", check_plain_predicates, strategy=s_plain_predicates, quick=20000, thorough=1000000,
          rule="Interval(a,b) x query number (py/numpy, int/float, at ends +-1ulp) x second interval; Fraction-exact "
               "contains/in/overlaps/intersection both ways; non-trivial = query within 10% of an end, touching "
               "intervals, int or numpy argument"),
    Facet("plain-arithmetic", check_plain_arith, strategy=s_plain_arith, quick=20000, thorough=1000000,
          rule="+,-,*,/ by positive/negative/zero scalars and round(n); image ends in order; non-trivial = negative "
               "scalar, zero, int scalar or rounding"),
    Facet("angle-membership", check_angle_membership, strategy=s_angle_membership, quick=20000, thorough=1000000,
          rule="AngleInterval of length 0..2pi-1e-6 (classes 0,<pi,=pi,>pi; int ends) x theta float/int/numpy incl. "
               "2pi-images; non-trivial = arc longer than pi, int query, or query within 10% of an end"),
    Facet("angle-contains-interval", check_angle_contains_interval, strategy=s_angle_contains_interval, quick=15000,
          thorough=600000, rule="outer arc x inner arc (sub-arcs, overhanging, images, free); non-trivial = outer "
                                "longer than pi or margin within 10%"),
    Facet("angle-shift", check_angle_shift, strategy=s_angle_shift, quick=15000, thorough=600000,
          rule="AngleInterval +/- angle in [-2pi,2pi]; length kept, start congruent, result valid; non-trivial = "
               "shift leaves [-2pi,2pi] (renormalisation) or long arc"),
    Facet("ctor-rejection", check_rejection, strategy=s_rejection, quick=3000, thorough=50000,
          rule="start>end (plain, angle) and length>=2pi must be rejected; every case non-trivial"),
    Facet("angle-grid-exhaustive", check_angle_membership, enumerate=enumerate_grid, shards_quick=8, shards_thorough=8,
          rule="complete grid: start, length multiples of pi/8 inside [-2pi,2pi], queries at all multiples of pi/8 "
               "and +-0.01 beside them"),
]
