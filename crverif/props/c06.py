"""C06 - spatial lookups agree with the geometry they index."""
import copy
import math
import os
import pickle
import tempfile
import warnings

import numpy as np
import shapely.geometry
from hypothesis import strategies as st

from commonroad.scenario.lanelet import LaneletNetwork
from commonroad.scenario.scenario import Scenario

from crverif.core import Facet, Violation
from crverif.gen import geometry as gg
from crverif.gen import scenario as gs
from crverif.gen.values import TWO_PI, angle
from crverif.oracle import geom

RULE = ("brute force over raw vertices: own point-in-polygon on right ++ reversed(left), own polygon/disc intersection; "
        "band = boundary distance < 1e-9*scale (shapes: answer unstable under growing/shrinking by 1e-6; circles "
        "additionally 0.2 % for the 64-gon export)")
ASSUMPTIONS = ["well-formed lanelets: simple polygons (generator guarantees it, independent O(n^2) test discards)",
               "find_lanelet_by_shape is documented for Circle/Polygon/Rectangle only; shape groups go through "
               "get_obstacles member-wise", "get_obstacles needs obstacles that have an occupancy at the queried time",
               "file routes use coordinates rounded to 4 decimals (exactly representable at the writer precision)"]

ROUTES = ["list", "add", "scenario", "scenario-list", "scenario-mixed-list", "scenario-network", "deepcopy", "pickle",
          "from-network", "batch-removal", "merged-network", "xml", "pb"]


def round_net(net, nd=4):
    for la in net["lanelets"]:
        for k in ("left", "right", "center"):
            la[k] = [[round(p[0], nd), round(p[1], nd)] for p in la[k]]
    return net


def build_by_route(net, route):
    if route in ("list", "deepcopy", "pickle", "from-network"):
        n = LaneletNetwork.create_from_lanelet_list([gs.build_lanelet(l) for l in net["lanelets"]])
        if route == "from-network":
            n = LaneletNetwork.create_from_lanelet_network(n)
        elif route == "deepcopy":
            n = copy.deepcopy(n)
        elif route == "pickle":
            n = pickle.loads(pickle.dumps(n))
        return n
    if route == "batch-removal":
        # the documented batch use of remove_lanelet: rtree=False for all but the last removal; the lanelets removed
        # here coincide with kept ones, so a stale index entry shows up in every query that hits them
        import copy as _copy
        n = LaneletNetwork()
        ghosts = []
        for i, l in enumerate(net["lanelets"]):
            n.add_lanelet(gs.build_lanelet(l), rtree=False)
            if i < 2:
                g = gs.build_lanelet(dict(l, id=90000 + i, pred=[], succ=[], adj_left=None, adj_right=None))
                n.add_lanelet(g, rtree=False)
                ghosts.append(90000 + i)
        n._create_strtree() if False else n.add_lanelet(gs.build_lanelet(dict(net["lanelets"][0], id=90009, pred=[],
                                                                              succ=[], adj_left=None, adj_right=None)))
        ghosts.append(90009)
        for k, gid in enumerate(ghosts):
            n.remove_lanelet(gid, rtree=(k == len(ghosts) - 1))
        return n
    if route == "add":
        n = LaneletNetwork()
        for l in net["lanelets"]:
            n.add_lanelet(gs.build_lanelet(l))
        return n
    sc = Scenario(0.1)
    if route == "scenario":
        for l in net["lanelets"]:
            sc.add_objects(gs.build_lanelet(l))
        return sc.lanelet_network
    if route in ("scenario-list", "scenario-mixed-list"):
        # the lanelets arrive in one add_objects call: as a list of lanelets, or in a list that also holds other objects
        # (here it ends with a static obstacle far away from the network)
        from commonroad.geometry.shape import Rectangle
        from commonroad.scenario.obstacle import ObstacleType, StaticObstacle
        from commonroad.scenario.state import InitialState
        objs = [gs.build_lanelet(l) for l in net["lanelets"]]
        if route == "scenario-mixed-list":
            objs.append(StaticObstacle(987654, ObstacleType.PARKED_VEHICLE, Rectangle(2.0, 1.0), InitialState(
                time_step=0, position=np.array([1.0e6, 1.0e6]), orientation=0.0)))
        sc.add_objects(objs)
        return sc.lanelet_network
    if route == "merged-network":
        # the network grows by merging another network into it; the LAST lanelet of the other network has an id that
        # is already in use and is rejected with a warning (the library stops adding at the first rejection, so a
        # duplicate further up would keep the later lanelets out of the network altogether)
        ls = [gs.build_lanelet(l) for l in net["lanelets"]]
        k = max(1, len(ls) // 2)
        n = LaneletNetwork.create_from_lanelet_list(ls[:k], cleanup_ids=False)
        rest = ls[k:]
        dup = gs.build_lanelet(dict(net["lanelets"][0], pred=[], succ=[], adj_left=None, adj_right=None))
        rest.append(dup)
        other = LaneletNetwork.create_from_lanelet_list(rest, cleanup_ids=False)
        n.add_lanelets_from_network(other)
        return n
    if route == "scenario-network":
        sc.add_objects(LaneletNetwork.create_from_lanelet_list([gs.build_lanelet(l) for l in net["lanelets"]]))
        return sc.lanelet_network
    # file routes
    from commonroad.common.file_reader import CommonRoadFileReader
    from commonroad.common.file_writer import CommonRoadFileWriter, OverwriteExistingFile
    from commonroad.common.util import FileFormat
    from commonroad.planning.planning_problem import PlanningProblemSet
    from commonroad.scenario.scenario import Tag
    for l in net["lanelets"]:
        sc.add_objects(gs.build_lanelet(l))
    d = tempfile.mkdtemp(prefix="crverif-c06-")
    try:
        fmt = FileFormat.XML if route == "xml" else FileFormat.PROTOBUF
        path = os.path.join(d, "s" + fmt.value)
        CommonRoadFileWriter(sc, PlanningProblemSet(), "a", "b", "c", {Tag.URBAN}, file_format=fmt).write_to_file(
            path, OverwriteExistingFile.ALWAYS)
        sc2, _ = CommonRoadFileReader(path, file_format=fmt).open()
        return sc2.lanelet_network
    finally:
        import shutil
        shutil.rmtree(d, ignore_errors=True)


def point_from_spec(net, spec):
    kind = spec["kind"]
    ls = net["lanelets"]
    if kind == "free":
        return spec["p"]
    la = ls[spec["lanelet"] % len(ls)]
    n = len(la["left"])
    if kind == "vertex":
        side = la["left"] if spec["v"] < 0.5 else la["right"]
        return list(side[int(spec["u"] * n) % n])
    if kind == "far":
        return [la["center"][0][0] + 1e4 + spec["u"], la["center"][0][1] - 1e4 * spec["v"]]
    i = min(int(spec["u"] * (n - 1)), n - 2)
    f = spec["u"] * (n - 1) - i
    r = [la["right"][i][0] + f * (la["right"][i + 1][0] - la["right"][i][0]),
         la["right"][i][1] + f * (la["right"][i + 1][1] - la["right"][i][1])]
    l = [la["left"][i][0] + f * (la["left"][i + 1][0] - la["left"][i][0]),
         la["left"][i][1] + f * (la["left"][i + 1][1] - la["left"][i][1])]
    v = spec["v"]
    if kind == "boundary":
        v = 0.0 if v < 0.5 else 1.0
    elif kind == "outside":
        v = -0.05 - v if spec["u"] < 0.5 else 1.05 + v
    return [r[0] + v * (l[0] - r[0]), r[1] + v * (l[1] - r[1])]


def point_spec():
    return st.one_of(
        st.fixed_dictionaries({"kind": st.sampled_from(["in", "in", "in", "boundary", "outside", "vertex", "far"]),
                               "lanelet": st.integers(0, 7), "u": st.floats(0, 1), "v": st.floats(0.02, 0.98)}),
        st.fixed_dictionaries({"kind": st.just("free"), "p": gg.point(300)}))


KNOWN_CIRCLE = "circle-export-half-radius"


def halve_circles(g):
    """The same geometry with every circle at half its radius (signature of the recorded finding: Circle.shapely_object
    is buffered with radius / 2). Used only to ATTRIBUTE a failure that has already been established."""
    if g["k"] == "circle":
        return {"k": "circle", "c": g["c"], "r": 0.5 * g["r"]}
    if g["k"] == "group":
        return {"k": "group", "m": [halve_circles(m) for m in g["m"]]}
    return g


def has_circle(g):
    return g["k"] == "circle" or (g["k"] == "group" and any(has_circle(m) for m in g["m"]))


def lookup_truth(g, rings, ctx=None):
    must, may = set(), set()
    for lid, ring in rings.items():
        v = geom.robust_intersects(g, ring)
        if v is None:
            may.add(lid)
            if ctx is not None:
                ctx.band_case()
        elif v:
            must.add(lid)
    return must, may


def rings_of(net):
    return {la["id"]: gg.lanelet_ring(la) for la in net["lanelets"]}


def net_scale(net):
    return 1 + max(abs(x) for la in net["lanelets"] for p in la["left"] + la["right"] for x in p)


def require_simple(net, ctx):
    for la in net["lanelets"]:
        if not geom.is_simple(gg.lanelet_ring(la)):
            ctx.discard("non-simple lanelet after rounding")


# ------------------------------------------------------------------------------------------------ position lookup
@st.composite
def s_position(draw, tier=None):
    net = gs.maybe_twin(draw, draw(gs.network_recipe(max_lanelets=6)))
    return {"net": net, "route": draw(st.sampled_from(ROUTES)),
            "points": draw(st.lists(point_spec(), min_size=1, max_size=8))}


def check_position(r, ctx):
    net = round_net(r["net"]) if r["route"] in ("xml", "pb") else r["net"]
    require_simple(net, ctx)
    with warnings.catch_warnings():
        warnings.simplefilter("ignore")
        ln = build_by_route(net, r["route"])
    rings = rings_of(net)
    pts = [point_from_spec(net, s) for s in r["points"]]
    scale = net_scale(net)
    got = ln.find_lanelet_by_position([np.array(p) for p in pts])
    if len(got) != len(pts):
        raise Violation("position-result-length", "%d results for %d points" % (len(got), len(pts)))
    if sorted(la.lanelet_id for la in ln.lanelets) != sorted(rings):
        raise Violation("position-network-lanelets", "route %s lost or invented lanelets" % r["route"])
    nt = False
    for p, ids, spec in zip(pts, got, r["points"]):
        if len(set(ids)) != len(ids):
            raise Violation("position-duplicate-ids", "%r for %r" % (ids, p))
        must, may = set(), set()
        for lid, ring in rings.items():
            inside, d = geom.point_in_polygon(p, ring)
            if any(p[0] == v[0] and p[1] == v[1] for v in ring):
                # bit-for-bit a vertex of this lanelet's polygon: no rounding is involved and the polygon (a closed
                # set; "interior or boundary" in the shapes' documentation) contains it
                must.add(lid)
                ctx.label("exact-vertex-query")
            elif d < 1e-9 * scale:
                may.add(lid)
                ctx.band_case()
            elif inside:
                must.add(lid)
        if not (must <= set(ids) <= must | may):
            raise Violation("position-lookup-" + r["route"], "point %r (%s): got %r, truth %r (band %r)" % (
                p, spec["kind"], sorted(ids), sorted(must), sorted(may)))
        # Lanelet.contains_points agrees with the same truth
        for la in ln.lanelets:
            c = la.contains_points(np.array([p, p]))[0]  # documented: a polyline of >= 2 points
            lid = la.lanelet_id
            if lid in may:
                continue
            if bool(c) != (lid in must):
                raise Violation("contains-points", "lanelet %d, point %r: %r, truth %r" % (lid, p, c, lid in must))
        if len(rings) >= 2 and (len(must) >= 2 or (0 < len(must) < len(rings))):
            nt = True
        ctx.label("hits-%d" % min(len(must), 3))
    ctx.label("route-" + r["route"])
    if nt:
        ctx.nontrivial()


# ------------------------------------------------------------------------------------------------ shape lookup
def query_shape():
    return st.one_of(
        st.fixed_dictionaries({"k": st.just("rect"), "l": st.floats(0.2, 25), "w": st.floats(0.2, 8), "o": angle()}),
        st.fixed_dictionaries({"k": st.just("circle"), "r": st.floats(0.1, 12)}),
        gg.star_polygon(center=[0.0, 0.0], rmin=0.2, rmax=10.0))


def place_query(shape, p):
    if shape["k"] == "rect":
        return {"k": "rect", "l": shape["l"], "w": shape["w"], "c": list(p), "o": shape["o"]}
    if shape["k"] == "circle":
        return {"k": "circle", "r": shape["r"], "c": list(p)}
    return {"k": "poly", "v": [[q[0] + p[0], q[1] + p[1]] for q in shape["v"]], "c": list(p)}


@st.composite
def s_shape_lookup(draw, tier=None):
    net = gs.maybe_twin(draw, draw(gs.network_recipe(max_lanelets=6)))
    return {"net": net, "route": draw(st.sampled_from(ROUTES)),
            "queries": draw(st.lists(st.tuples(point_spec(), query_shape()).map(list), min_size=1, max_size=5))}


def check_shape_lookup(r, ctx):
    net = round_net(r["net"]) if r["route"] in ("xml", "pb") else r["net"]
    require_simple(net, ctx)
    with warnings.catch_warnings():
        warnings.simplefilter("ignore")
        ln = build_by_route(net, r["route"])
    rings = rings_of(net)
    nt = False
    for spec, shape in r["queries"]:
        q = place_query(shape, point_from_spec(net, spec))
        g = gg.shape_geo(q)
        got = ln.find_lanelet_by_shape(gg.build_shape(q))
        if len(set(got)) != len(got):
            raise Violation("shape-duplicate-ids", repr(got))
        must, may = lookup_truth(g, rings, ctx)
        if not (must <= set(got) <= must | may):
            detail = "query %r: got %r, truth %r (band %r)" % (q, sorted(got), sorted(must), sorted(may))
            if q["k"] == "circle":
                m2, y2 = lookup_truth(halve_circles(g), rings)
                if m2 <= set(got) <= m2 | y2:
                    raise Violation(KNOWN_CIRCLE, "answer matches a disc of HALF the radius; " + detail)
            raise Violation("shape-lookup-%s-%s" % (q["k"], r["route"]), detail)
        ctx.label("query-" + q["k"])
        if len(rings) >= 2 and (len(must) >= 2 or 0 < len(must) < len(rings)):
            nt = True
    ctx.label("route-" + r["route"])
    if nt:
        ctx.nontrivial()


# ------------------------------------------------------------------------------------------------ shape containment
def s_containment(tier):
    pts = st.lists(st.tuples(st.floats(0, TWO_PI), st.one_of(st.floats(0, 2.5), st.floats(0.8, 1.2))).map(list),
                   min_size=1, max_size=10)
    return st.fixed_dictionaries({"shape": gg.any_shape(), "pts": pts, "setters": st.sampled_from([False, False, True])})


def own_radius(g, a):
    """Distance from the shape's reference centre to its boundary in direction a (used only to place query points)."""
    if g["k"] == "circle":
        return g["r"]
    return 0.5 * geom.geo_size(g)


def check_containment(r, ctx):
    shape = r["shape"]
    if r.get("setters"):
        # the shape got its values through the public setters after it had been used with other values
        def mark(sh):
            return dict(sh, setters=True, m=[mark(m) for m in sh["m"]]) if sh["k"] == "group" else dict(sh, setters=True)
        obj = gg.build_shape(mark(shape))
        ctx.label("values-via-setters")
    else:
        obj = gg.build_shape(shape)
    g = gg.shape_geo(shape)
    members = g["m"] if g["k"] == "group" else [g]
    scale = 1 + gg.geo_scale_of(g)
    nt = False
    for a, f in r["pts"]:
        m = members[int(a * 1000) % len(members)]
        c = m["c"] if m.get("c") is not None else geom.polygon_centroid(m["v"])
        rr = f * own_radius(m, a)
        p = [c[0] + rr * math.cos(a), c[1] + rr * math.sin(a)]
        inside, d = geom.geo_contains_point(g, p)
        got = obj.contains_point(np.array(p))
        if d >= 1e-9 * scale:
            if bool(got) != inside:
                raise Violation("contains-point-" + shape["k"], "%r.contains_point(%r) = %r, truth %r (margin %g)" % (
                    shape, p, got, inside, d))
        else:
            ctx.band_case()
        if shape["k"] != "group":
            so = obj.shapely_object
            band = 1e-9 * scale + (0.002 * g["r"] if g["k"] == "circle" else 0.0)
            sg = so.intersects(shapely.geometry.Point(p))
            if d >= band and bool(sg) != inside:
                detail = "shapely_object of %r contains %r: %r, truth %r (margin %g)" % (shape, p, sg, inside, d)
                if g["k"] == "circle":
                    i2, d2 = geom.geo_contains_point(halve_circles(g), p)
                    if d2 < 0.002 * g["r"] or bool(sg) == i2:
                        raise Violation(KNOWN_CIRCLE, "membership matches a disc of HALF the radius; " + detail)
                raise Violation("exported-geometry-membership-" + shape["k"], detail)
        if d < 0.2 * max(geom.geo_size(m), 1e-9):
            nt = True
    if shape["k"] != "group":
        so = obj.shapely_object
        if g["k"] == "circle":
            area, rel = math.pi * g["r"] ** 2, 0.005
            bounds = [g["c"][0] - g["r"], g["c"][1] - g["r"], g["c"][0] + g["r"], g["c"][1] + g["r"]]
            btol = 0.002 * g["r"] + 1e-9 * scale
        else:
            area, rel = abs(geom.polygon_area(g["v"])), 1e-9
            xs = [q[0] for q in g["v"]]
            ys = [q[1] for q in g["v"]]
            bounds = [min(xs), min(ys), max(xs), max(ys)]
            btol = 1e-9 * scale
        if abs(so.area - area) > rel * area + 1e-12:
            if g["k"] == "circle" and abs(so.area - area / 4) <= rel * area / 4 + 1e-12:
                raise Violation(KNOWN_CIRCLE, "area %r is that of a disc of HALF the radius (truth %r)" % (so.area, area))
            raise Violation("exported-geometry-area-" + shape["k"], "area %r, truth %r" % (so.area, area))
        if any(abs(x - y) > btol for x, y in zip(so.bounds, bounds)):
            raise Violation("exported-geometry-bounds-" + shape["k"], "bounds %r, truth %r" % (so.bounds, bounds))
    ctx.label("shape-" + shape["k"])
    if nt:
        ctx.nontrivial()


# ------------------------------------------------------------------------------------------------ obstacle mapping
@st.composite
def s_mapping(draw, tier=None):
    net = gs.maybe_twin(draw, draw(gs.network_recipe(max_lanelets=5)))
    obs = []
    for i in range(draw(st.integers(1, 4))):
        spec = draw(point_spec())
        shape = draw(gg.any_shape(centered=True))
        obs.append({"spec": spec, "shape": shape, "theta": draw(angle()), "role": draw(st.sampled_from(
            ["static", "dynamic"]))})
    return {"net": net, "obs": obs}


def check_mapping(r, ctx):
    net = r["net"]
    with warnings.catch_warnings():
        warnings.simplefilter("ignore")
        ln = build_by_route(net, "list")
    rings = rings_of(net)
    objs, geos = [], {}
    for i, o in enumerate(r["obs"]):
        p = point_from_spec(net, o["spec"])
        rec = {"role": o["role"], "id": 900 + i, "type": "CAR", "shape": o["shape"],
               "init": {"cls": "InitialState", "t": 0, "a": {"position": p, "orientation": o["theta"], "velocity": 0.0,
                                                            "acceleration": 0.0, "yaw_rate": 0.0, "slip_angle": 0.0}}}
        objs.append(gs.build_obstacle(rec))
        geos[900 + i] = gg.place(o["shape"], p, o["theta"])

    def truth_tables(transform, count_band):
        truth, unsure = {}, set()
        for oid, g in geos.items():
            for lid, ring in rings.items():
                v = geom.robust_intersects(transform(g), ring)
                if v is None:
                    unsure.add((lid, oid))
                    if count_band:
                        ctx.band_case()
                elif v:
                    truth.setdefault(lid, set()).add(oid)
        return truth, unsure

    mapping = ln.map_obstacles_to_lanelets(objs)
    per_lanelet = {lid: {o.obstacle_id for o in ln.find_lanelet_by_id(lid).get_obstacles(objs, 0)} for lid in rings}
    filtered = [o.obstacle_id for o in ln.filter_obstacles_in_network(objs)]

    def judge(truth, unsure):
        for lid in rings:
            got = {o.obstacle_id for o in mapping.get(lid, [])}
            exp = truth.get(lid, set())
            may = {oid for (l2, oid) in unsure if l2 == lid}
            if not (exp <= got <= exp | may):
                return ("map-obstacles-to-lanelets", "lanelet %d: got %r, truth %r (band %r)" % (
                    lid, sorted(got), sorted(exp), sorted(may)))
            if not (exp <= per_lanelet[lid] <= exp | may):
                return ("get-obstacles", "lanelet %d: got %r, truth %r (band %r)" % (
                    lid, sorted(per_lanelet[lid]), sorted(exp), sorted(may)))
        inside = set().union(*truth.values()) if truth else set()
        may_all = {oid for (_, oid) in unsure}
        if len(filtered) != len(set(filtered)) or not (inside <= set(filtered) <= inside | may_all):
            return ("filter-obstacles-in-network", "got %r, truth %r (band %r)" % (filtered, sorted(inside),
                                                                                   sorted(may_all)))
        return None

    truth, unsure = truth_tables(lambda g: g, True)
    bad = judge(truth, unsure)
    if bad is not None:
        if any(has_circle(g) for g in geos.values()) and judge(*truth_tables(halve_circles, False)) is None:
            raise Violation(KNOWN_CIRCLE, "answers match discs of HALF the radius; %s: %s" % bad)
        raise Violation(*bad)
    inside = set().union(*truth.values()) if truth else set()
    for o in r["obs"]:
        ctx.label("obstacle-shape-" + o["shape"]["k"])
    if inside and len(inside) < len(objs) or any(len(v) for v in truth.values()) and len(rings) >= 2:
        ctx.nontrivial()


# ------------------------------------------------------------------------------------------------ exact grid
def s_grid(tier):
    ob = st.tuples(st.integers(-6, 30), st.integers(-6, 30), st.integers(1, 8), st.integers(1, 6)).map(list)
    pt = st.tuples(st.integers(-4, 28), st.integers(-4, 28)).map(list)
    return st.fixed_dictionaries({"lanes": st.integers(1, 3), "L": st.integers(2, 6), "w": st.integers(1, 3),
                                  "mid": st.booleans(), "obs": st.lists(ob, min_size=1, max_size=5),
                                  "pts": st.lists(pt, min_size=1, max_size=8)})


def check_grid(r, ctx):
    """Axis-parallel lanes and rectangles on a half-integer grid: every number is exact in floating point, so the closed
    sets (touching counts as intersecting, boundary points are contained) are decided exactly with integers."""
    n, L2, w2 = r["lanes"], 4 * r["L"], 2 * r["w"]          # doubled coordinates: lane j = [0, L2] x [j*w2, (j+1)*w2]
    xs = [0, L2 // 2, L2] if r["mid"] else [0, L2]
    lanelets = []
    for j in range(n):
        y0, y1 = j * w2 / 2.0, (j + 1) * w2 / 2.0
        lanelets.append(gs.build_lanelet({"id": 10 + j, "left": [[x / 2.0, y1] for x in xs],
                                          "right": [[x / 2.0, y0] for x in xs],
                                          "center": [[x / 2.0, 0.5 * (y0 + y1)] for x in xs], "pred": [], "succ": []}))
    with warnings.catch_warnings():
        warnings.simplefilter("ignore")
        ln = LaneletNetwork.create_from_lanelet_list(lanelets)
        lanes = {10 + j: (0, L2, j * w2, (j + 1) * w2) for j in range(n)}

        def overlaps(box, lane):     # closed boxes in doubled coordinates
            return box[0] <= lane[1] and lane[0] <= box[1] and box[2] <= lane[3] and lane[2] <= box[3]
        objs, boxes = [], {}
        for i, (cx2, cy2, l2, wd2) in enumerate(r["obs"]):
            # rectangle with centre (cx2/2, cy2/2), length l2, width wd2 (doubled half-extents l2, wd2), orientation 0
            rec = {"role": "static", "id": 900 + i, "type": "PARKED_VEHICLE",
                   "shape": {"k": "rect", "l": float(l2), "w": float(wd2), "c": None, "o": None},
                   "init": {"cls": "InitialState", "t": 0, "a": {"position": [cx2 / 2.0, cy2 / 2.0], "orientation": 0.0,
                                                                "velocity": 0.0, "acceleration": 0.0, "yaw_rate": 0.0,
                                                                "slip_angle": 0.0}}}
            objs.append(gs.build_obstacle(rec))
            boxes[900 + i] = (cx2 - l2, cx2 + l2, cy2 - wd2, cy2 + wd2)
        truth = {lid: {oid for oid, b in boxes.items() if overlaps(b, lane)} for lid, lane in lanes.items()}
        touching = any(overlaps(b, lane) and (b[0] == lane[1] or b[1] == lane[0] or b[2] == lane[3] or b[3] == lane[2])
                       for b in boxes.values() for lane in lanes.values())
        mapping = ln.map_obstacles_to_lanelets(objs)
        for lid in lanes:
            got = {o.obstacle_id for o in mapping.get(lid, [])}
            if got != truth[lid]:
                raise Violation("grid-map-obstacles-to-lanelets", "lanelet %d %r: got %r, exact truth %r; boxes %r" % (
                    lid, lanes[lid], sorted(got), sorted(truth[lid]), boxes))
            got = {o.obstacle_id for o in ln.find_lanelet_by_id(lid).get_obstacles(objs, 0)}
            if got != truth[lid]:
                raise Violation("grid-get-obstacles", "lanelet %d %r: got %r, exact truth %r; boxes %r" % (
                    lid, lanes[lid], sorted(got), sorted(truth[lid]), boxes))
        inside = set().union(*truth.values())
        got = sorted(o.obstacle_id for o in ln.filter_obstacles_in_network(objs))
        if got != sorted(inside):
            raise Violation("grid-filter-obstacles-in-network", "got %r, exact truth %r" % (got, sorted(inside)))
        for o in objs:
            got = set(ln.find_lanelet_by_shape(o.occupancy_at_time(0).shape))
            exp = {lid for lid in lanes if o.obstacle_id in truth[lid]}
            if got != exp:
                raise Violation("grid-shape-lookup", "obstacle box %r: got %r, exact truth %r" % (
                    boxes[o.obstacle_id], sorted(got), sorted(exp)))
        pts = [[x2 / 2.0, y2 / 2.0] for x2, y2 in r["pts"]]
        res = ln.find_lanelet_by_position([np.array(p) for p in pts])
        on_boundary = False
        for (x2, y2), p, ids in zip(r["pts"], pts, res):
            exp = {lid for lid, la in lanes.items() if la[0] <= x2 <= la[1] and la[2] <= y2 <= la[3]}
            on_boundary = on_boundary or any(x2 in (la[0], la[1]) or y2 in (la[2], la[3]) for lid, la in lanes.items()
                                             if lid in exp)
            if set(ids) != exp or len(ids) != len(set(ids)):
                raise Violation("grid-position-lookup", "point %r: got %r, exact truth %r" % (p, sorted(ids),
                                                                                              sorted(exp)))
            for la in ln.lanelets:
                c = bool(la.contains_points(np.array([p, p]))[0])
                if c != (la.lanelet_id in exp):
                    raise Violation("grid-contains-points", "lanelet %d, point %r: %r, exact truth %r" % (
                        la.lanelet_id, p, c, la.lanelet_id in exp))
    if touching:
        ctx.label("touching-only-contact")
    if on_boundary:
        ctx.label("point-on-boundary")
    if touching or on_boundary:
        ctx.nontrivial()


FACETS = [
    Facet("grid-exact", check_grid, strategy=s_grid, quick=3000, thorough=100000,
          rule="1-3 axis-parallel lanes and up to 5 axis-parallel rectangles on a half-integer grid, grid query points: "
               "all lookups and obstacle mappings vs exact integer truth for the closed sets (touching counts, boundary "
               "points are contained); non-trivial = a touching-only contact or a point on a boundary"),
    Facet("position-lookup", check_position, strategy=s_position, quick=2400, thorough=120000,
          rule="networks of 1-6 lanelets (chains, neighbours sharing a boundary, crossing, far apart) built by 9 routes "
               "(list, add, scenario, scenario+network, deepcopy, pickle, create_from_lanelet_network, XML, protobuf) x 1-8 points (inside, on "
               "boundaries, outside near, vertices, far, free); find_lanelet_by_position and Lanelet.contains_points vs "
               "brute force; non-trivial = >= 2 lanelets and the truth set is non-empty and not everything, or >= 2 hits"),
    Facet("shape-lookup", check_shape_lookup, strategy=s_shape_lookup, quick=2400, thorough=120000,
          rule="same networks / routes x rectangle, circle, polygon queries placed relative to lanelets; "
               "find_lanelet_by_shape vs own intersection test; same non-triviality rule"),
    Facet("shape-containment", check_containment, strategy=s_containment, quick=6000, thorough=300000,
          rule="every shape kind (off-centre, oriented, groups) x points at 0-2.5 x the shape radius; contains_point vs "
               "own test; shapely_object membership / area / bounds; non-trivial = point within 20 % of the size from "
               "the boundary"),
    Facet("obstacle-mapping", check_mapping, strategy=s_mapping, quick=1500, thorough=80000,
          rule="static/dynamic obstacles with rectangle / circle / polygon / group shapes placed relative to lanelets; "
               "map_obstacles_to_lanelets, Lanelet.get_obstacles, filter_obstacles_in_network vs own intersection test"),
]
