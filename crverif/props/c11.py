"""C11 - derived data never goes stale under mutation."""
import copy
import math
import pickle
import warnings

import numpy as np
from hypothesis import strategies as st

from commonroad.prediction.prediction import SetBasedPrediction, TrajectoryPrediction
from commonroad.scenario.lanelet import Lanelet, LaneletNetwork
from commonroad.scenario.obstacle import DynamicObstacle
from commonroad.scenario.scenario import Scenario
from commonroad.scenario.traffic_light import (TrafficLight, TrafficLightCycle, TrafficLightCycleElement,
                                               TrafficLightState)
from commonroad.scenario.trajectory import Trajectory

from crverif.core import Facet, Violation
from crverif.gen import geometry as gg
from crverif.gen import scenario as gs
from crverif.gen.values import angle, translation
from crverif.oracle import geom
from crverif.props import c06

RULE = ("histories interleaving queries (to fill caches) and public mutators; after every step each query on the mutated "
        "object must equal the same query on an object REBUILT through the public constructors from the mutated "
        "object's current primary data (deep-copied)")
ASSUMPTIONS = ["lanelets are not mutated behind a network's back (documented warning on the vertex setters)",
               "a cycle's elements are changed through the cycle_elements setter or in place through the public "
               "duration / state setters of an element",
               "tolerance 1e-9*(1+scale) for geometry; lookups compared as sets, boundary band skipped",
               "point-mass states at rest (no heading) are not generated"]


# ------------------------------------------------------------------------------------------------ dynamic obstacle
def rebuild_obstacle(o):
    p = o.prediction
    if isinstance(p, TrajectoryPrediction):
        traj = Trajectory(p.trajectory.initial_time_step, [copy.deepcopy(s) for s in p.trajectory.state_list])
        p2 = TrajectoryPrediction(traj, copy.deepcopy(p.shape))
    elif isinstance(p, SetBasedPrediction):
        p2 = SetBasedPrediction(p.initial_time_step, [copy.deepcopy(oc) for oc in p.occupancy_set])
    else:
        p2 = None
    return DynamicObstacle(o.obstacle_id, o.obstacle_type, copy.deepcopy(o.obstacle_shape),
                           copy.deepcopy(o.initial_state), p2)


def _use_shape(sh):
    """Ordinary use of an occupancy's shape (vertices, exported geometry, a containment test)."""
    for m in getattr(sh, "shapes", [sh]):
        getattr(m, "vertices", None)
        m.shapely_object
        m.contains_point(np.array([0.0, 0.0]))


def same_occupancy(a, b, tag, t):
    if (a is None) != (b is None):
        raise Violation(tag + "-occupancy-presence", "t=%d: mutated object %r, rebuilt %r" % (t, a, b))
    if a is None:
        return
    ga, gb = gg.lib_shape_geo(a.shape), gg.lib_shape_geo(b.shape)
    tol = 1e-9 * (1 + gg.geo_scale_of(gb))
    d = gg.same_geo(ga, gb, tol) or gg.vertices_agree(a.shape, tol) or gg.export_agrees(a.shape, tol)
    if d:
        raise Violation(tag + "-occupancy-stale", "t=%d: %s" % (t, d))


def same_state(a, b, tag, t):
    if (a is None) != (b is None):
        raise Violation(tag + "-state-presence", "t=%d: %r vs %r" % (t, a, b))
    if a is None:
        return
    if a.time_step != b.time_step or set(a.attributes) != set(b.attributes):
        raise Violation(tag + "-state-stale", "t=%d: %r vs %r" % (t, a, b))
    pa, pb = a.position, b.position
    if isinstance(pa, np.ndarray) and (abs(pa - pb) > 1e-9 * (1 + abs(pb))).any():
        raise Violation(tag + "-state-stale", "t=%d: position %r vs %r" % (t, pa, pb))


def s_obstacle(tier):
    motion = st.tuples(translation(100), angle()).map(list)
    cls = st.sampled_from(["KSState", "STState", "PMState", "InitialState", "ExtendedPMState"])

    def traj(c):
        return st.tuples(st.integers(1, 3), st.integers(1, 5)).flatmap(lambda t: gg.trajectory(c, t[0], t[1]))
    new_traj = cls.flatmap(traj)
    init = gg.exact_state("InitialState", 0)
    op = st.one_of(
        st.tuples(st.just("query"), st.lists(st.integers(0, 9), min_size=1, max_size=4)),
        st.tuples(st.just("query"), st.lists(st.integers(0, 9), min_size=1, max_size=4)),
        st.tuples(st.sampled_from(["tr-obstacle", "tr-prediction", "tr-scenario", "tr-trajectory"]), motion),
        st.tuples(st.just("set-trajectory"), new_traj),
        st.tuples(st.just("set-shape"), st.one_of(gg.any_shape(centered=True), gg.any_shape(centered=False))),
        st.tuples(st.just("append-state"), translation(20), st.integers(1, 3)),
        st.tuples(st.just("update-prediction"), st.one_of(st.none(), new_traj, gs.occupancies_simple())),
        st.tuples(st.just("update-initial-state"), gg.exact_state("InitialState", 0), st.integers(1, 4),
                  st.one_of(st.none(), gs.signal_recipe(0)), st.one_of(st.none(), st.lists(st.integers(1, 9), max_size=3))),
    )
    return st.fixed_dictionaries({"shape": st.one_of(gg.any_shape(centered=True), gg.any_shape(centered=True),
                                                     gg.any_shape(centered=False)), "init": init, "traj": new_traj,
                                  "ops": st.lists(op, min_size=2, max_size=14)})


def pm_rest(traj):
    for s in traj["states"]:
        a = s["a"]
        if "orientation" not in a and math.hypot(a.get("velocity", 1.0), a.get("velocity_y", 0.0)) < 1e-3:
            return True
    return False


def check_obstacle(r, ctx):
    if pm_rest(r["traj"]) or any(op[0] in ("set-trajectory", "update-prediction") and isinstance(op[1], dict)
                                 and "states" in op[1] and pm_rest(op[1]) for op in r["ops"]):
        ctx.discard("point-mass state at rest")
    with warnings.catch_warnings():
        warnings.simplefilter("ignore")
        ob = gs.build_obstacle({"role": "dynamic", "id": 5, "type": "CAR", "shape": r["shape"], "init": r["init"],
                                "pred": {"k": "traj", "traj": r["traj"]}})
        sc = Scenario(0.1)
        sc.add_objects(ob)
        model_history = []
        queried = False
        q_m_q = False
        mutated_after_query = False
        for op in r["ops"]:
            kind = op[0]
            if kind == "query":
                for t in op[1]:
                    occ = ob.occupancy_at_time(t)
                    if occ is not None:
                        _use_shape(occ.shape)
                    ob.state_at_time(t)
                queried = True
                if mutated_after_query:
                    q_m_q = True
            else:
                if queried:
                    mutated_after_query = True
                if kind.startswith("tr-"):
                    t, a = np.array(op[1][0], dtype=float), op[1][1]
                    if kind == "tr-obstacle":
                        ob.translate_rotate(t, a)
                    elif kind == "tr-scenario":
                        sc.translate_rotate(t, a)
                    elif kind == "tr-trajectory":
                        # the lowest level: the predicted trajectory's own translate_rotate
                        if not isinstance(ob.prediction, TrajectoryPrediction):
                            ctx.label("op-skipped")
                            continue
                        ob.prediction.trajectory.translate_rotate(t, a)
                    elif ob.prediction is not None:
                        ob.prediction.translate_rotate(t, a)
                    else:
                        ctx.label("op-skipped")
                        continue
                elif kind == "set-trajectory":
                    if not isinstance(ob.prediction, TrajectoryPrediction):
                        ctx.label("op-skipped")
                        continue
                    ob.prediction.trajectory = gg.build_trajectory(op[1])
                elif kind == "append-state":
                    # the predicted trajectory grows through its public append_state (a later state of the same kind)
                    if not isinstance(ob.prediction, TrajectoryPrediction):
                        ctx.label("op-skipped")
                        continue
                    last = ob.prediction.trajectory.final_state
                    new_state = copy.deepcopy(last)
                    new_state.time_step = last.time_step + 1
                    if isinstance(getattr(new_state, "position", None), np.ndarray):
                        new_state.position = new_state.position + np.array(op[1], dtype=float)
                    ob.prediction.trajectory.append_state(new_state)
                elif kind == "set-shape":
                    if not isinstance(ob.prediction, TrajectoryPrediction):
                        ctx.label("op-skipped")
                        continue
                    ob.prediction.shape = gg.build_shape(op[1])
                elif kind == "update-prediction":
                    p = op[1]
                    if p is None:
                        newp = None
                    elif "states" in p:
                        newp = TrajectoryPrediction(gg.build_trajectory(p), gg.build_shape(r["shape"]))
                    else:
                        newp = gs.build_prediction(p, None)
                    ob.update_prediction(newp)
                    if ob.prediction is not newp:
                        raise Violation("update-prediction-not-applied", "prediction after update_prediction(%r) is %r"
                                        % (newp, ob.prediction))
                elif kind == "update-initial-state":
                    _, st_r, k, sig, lan = op
                    model_history.append(ob.initial_state)
                    model_history = model_history[-k:] if len(model_history) > k else model_history
                    ob.update_initial_state(gg.build_state(st_r), None if sig is None else gs.build_signal(sig),
                                            None if lan is None else set(lan), None if lan is None else set(lan),
                                            max_history_length=k)
                    if len(ob.history) != len(model_history) or any(x is not y for x, y in zip(ob.history,
                                                                                                 model_history)):
                        raise Violation("history-content", "max_history_length=%d: history has %d entries, model %d "
                                        "(most recent first mismatch)" % (k, len(ob.history), len(model_history)))
                    lens = {len(ob.history), len(ob.signal_history), len(ob.center_lanelet_ids_history),
                            len(ob.shape_lanelet_ids_history)}
                    if len(lens) != 1:
                        raise Violation("history-lengths", "history lists have lengths %r" % sorted(lens))
                    ctx.label("history-len-%d" % min(len(ob.history), 4))
            ctx.label("op-" + kind)
            fresh = rebuild_obstacle(ob)
            for t in range(0, 15):
                same_occupancy(ob.occupancy_at_time(t), fresh.occupancy_at_time(t), "obstacle-after-" + kind, t)
                same_state(ob.state_at_time(t), fresh.state_at_time(t), "obstacle-after-" + kind, t)
    if q_m_q or (queried and mutated_after_query):
        ctx.nontrivial()


# ------------------------------------------------------------------------------------------------ static obstacle
def s_static(tier):
    motion = st.tuples(translation(100), angle()).map(list)
    op = st.one_of(st.tuples(st.just("query"), st.integers(0, 9)), st.tuples(st.just("query"), st.integers(0, 9)),
                   st.tuples(st.sampled_from(["tr-obstacle", "tr-scenario"]), motion),
                   st.tuples(st.just("set-initial-state"), gg.exact_state("InitialState", 0)),
                   st.tuples(st.sampled_from(["deepcopy", "pickle"])))
    return st.fixed_dictionaries({"shape": st.one_of(gg.any_shape(centered=False), gg.any_shape(centered=True)),
                                  "init": gg.exact_state("InitialState", 0),
                                  "ops": st.lists(op, min_size=2, max_size=10)})


def _off_centre(sh):
    if sh["k"] == "group":
        return any(_off_centre(m) for m in sh["m"])
    if sh["k"] == "poly":
        return max(abs(x) for x in geom.polygon_centroid(sh["v"])) > 1e-6
    return sh.get("c") is not None and any(abs(x) > 1e-6 for x in sh["c"])


def check_static(r, ctx):
    from commonroad.scenario.obstacle import StaticObstacle
    with warnings.catch_warnings():
        warnings.simplefilter("ignore")
        ob = gs.build_obstacle({"role": "static", "id": 5, "type": "PARKED_VEHICLE", "shape": r["shape"],
                                "init": r["init"]})
        sc = Scenario(0.1)
        sc.add_objects(ob)
        queried = mutated_after = False
        for op in r["ops"]:
            kind = op[0]
            if kind == "query":
                _use_shape(ob.occupancy_at_time(op[1]).shape)
                queried = True
            else:
                if queried:
                    mutated_after = True
                if kind == "tr-obstacle":
                    ob.translate_rotate(np.array(op[1][0], dtype=float), op[1][1])
                elif kind == "tr-scenario":
                    sc.translate_rotate(np.array(op[1][0], dtype=float), op[1][1])
                elif kind == "set-initial-state":
                    ob.initial_state = gg.build_state(op[1])
                else:
                    sc = copy.deepcopy(sc) if kind == "deepcopy" else pickle.loads(pickle.dumps(sc))
                    ob = sc.obstacle_by_id(5)
            ctx.label("op-" + kind)
            fresh = StaticObstacle(ob.obstacle_id, ob.obstacle_type, copy.deepcopy(ob.obstacle_shape),
                                   copy.deepcopy(ob.initial_state))
            for t in (0, 3):
                same_occupancy(ob.occupancy_at_time(t), fresh.occupancy_at_time(t), "static-after-" + kind, t)
            occs = sc.occupancies_at_time_step(2)
            if len(occs) != 1:
                raise Violation("static-scenario-occupancies", "%d occupancies for one static obstacle" % len(occs))
            same_occupancy(occs[0], fresh.occupancy_at_time(2), "static-scenario-after-" + kind, 2)
    if _off_centre(r["shape"]):
        ctx.label("off-centre-shape")
    if queried and mutated_after:
        ctx.nontrivial()


# ------------------------------------------------------------------------------------------------ lanelet
def s_lanelet(tier):
    motion = st.tuples(translation(100), angle()).map(list)
    op = st.one_of(st.tuples(st.just("query"), st.floats(0, 1)), st.tuples(st.just("tr"), motion))
    return st.fixed_dictionaries({"ll": gg.lanelet_polylines(2, 8, 0.5, 20.0).map(
        lambda p: {"left": p["left"], "right": p["right"], "center": p["center"]}),
        "ops": st.lists(op, min_size=2, max_size=8)})


def check_lanelet(r, ctx):
    ll = r["ll"]
    la = Lanelet(np.array(ll["left"]), np.array(ll["center"]), np.array(ll["right"]), 3)
    queried = mutated_after = False
    for op in r["ops"]:
        if op[0] == "query":
            d = la.distance
            la.interpolate_position(op[1] * float(d[-1]))
            la.polygon.vertices
            la.inner_distance
            queried = True
        else:
            la.translate_rotate(np.array(op[1][0], dtype=float), op[1][1])
            if queried:
                mutated_after = True
        fresh = Lanelet(copy.deepcopy(la.left_vertices), copy.deepcopy(la.center_vertices),
                        copy.deepcopy(la.right_vertices), 3)
        scale = 1 + float(np.abs(la.left_vertices).max())
        tol = 1e-9 * scale
        if not gg.same_ring(np.asarray(la.polygon.vertices).tolist(), np.asarray(fresh.polygon.vertices).tolist(), tol):
            raise Violation("lanelet-polygon-stale", "after %s" % op[0])
        if np.abs(np.asarray(la.distance) - np.asarray(fresh.distance)).max() > 1e-9 * (1 + float(fresh.distance[-1])):
            raise Violation("lanelet-distance-stale", "%r vs %r" % (la.distance, fresh.distance))
        if np.abs(np.asarray(la.inner_distance) - np.asarray(fresh.inner_distance)).max() > 1e-9 * (
                1 + float(fresh.distance[-1])):
            raise Violation("lanelet-inner-distance-stale", "%r vs %r" % (la.inner_distance, fresh.inner_distance))
        s = 0.37 * float(fresh.distance[-1])
        a, b = la.interpolate_position(min(s, float(la.distance[-1]))), fresh.interpolate_position(s)
        for x, y in zip(a[:3], b[:3]):
            if np.abs(np.asarray(x) - np.asarray(y)).max() > 1e-7 * scale:
                raise Violation("lanelet-interpolation-stale", "%r vs %r" % (a, b))
        pt = np.asarray(fresh.center_vertices)[0] * 0.5 + np.asarray(fresh.center_vertices)[1] * 0.5
        if not la.contains_points(np.array([pt, pt]))[0]:
            raise Violation("lanelet-contains-stale", "centre point %r not contained after %s" % (pt, op[0]))
    if queried and mutated_after:
        ctx.nontrivial()


# ------------------------------------------------------------------------------------------------ network / scenario
@st.composite
def s_network(draw, tier=None):
    net = draw(gs.network_recipe(max_lanelets=5))
    extra = draw(gs.network_recipe(ids=gs.Ids([900 + i for i in range(40)]), max_lanelets=3))
    motion = st.tuples(translation(100), angle()).map(list)
    op = st.one_of(
        st.tuples(st.just("query"), c06.point_spec(), c06.query_shape()),
        st.tuples(st.just("query"), c06.point_spec(), c06.query_shape()),
        st.tuples(st.just("tr"), motion),
        st.tuples(st.just("add"), st.integers(0, 2)),
        st.tuples(st.just("remove"), st.integers(0, 7)),
        st.tuples(st.sampled_from(["deepcopy", "pickle"])),
        st.tuples(st.just("add-network"), st.integers(0, 3), st.integers(0, 7)),
        st.tuples(st.just("add-mixed-list"), st.integers(1, 2), st.integers(1, 2)),
    )
    return {"net": net, "extra": extra["lanelets"], "level": draw(st.sampled_from(["network", "scenario"])),
            "ops": [list(o) for o in draw(st.lists(op, min_size=2, max_size=10))]}


def current_rings(ln):
    return {la.lanelet_id: np.concatenate((la.right_vertices, np.flip(la.left_vertices, 0))).tolist()
            for la in ln.lanelets}


def check_network(r, ctx):
    net = r["net"]
    for la in net["lanelets"]:
        la["pred"], la["succ"] = [], []
        for k in ("adj_left", "adj_right", "adj_left_same", "adj_right_same"):
            la.pop(k, None)
    with warnings.catch_warnings():
        warnings.simplefilter("ignore")
        if r["level"] == "scenario":
            sc = Scenario(0.1)
            for l in net["lanelets"]:
                sc.add_objects(gs.build_lanelet(l))
            ln = sc.lanelet_network
        else:
            sc = None
            ln = LaneletNetwork.create_from_lanelet_list([gs.build_lanelet(l) for l in net["lanelets"]])
        extra = [dict(l, pred=[], succ=[]) for l in r["extra"]]
        for l in extra:
            for k in ("adj_left", "adj_right", "adj_left_same", "adj_right_same"):
                l.pop(k, None)
        added = 0
        queried = mutated_after = False
        last_query = None
        for op in r["ops"]:
            kind = op[0]
            if kind == "query":
                last_query = op
                queried = True
            else:
                if queried:
                    mutated_after = True
                if kind == "tr":
                    (sc if sc is not None else ln).translate_rotate(np.array(op[1][0], dtype=float), op[1][1])
                elif kind == "add":
                    if added >= len(extra):
                        ctx.label("op-skipped")
                        continue
                    la = gs.build_lanelet(extra[added])
                    added += 1
                    if sc is not None:
                        sc.add_objects(la)
                    else:
                        ln.add_lanelet(la)
                elif kind == "add-mixed-list":
                    # one add_objects call with a list: a lanelet network followed by single lanelets
                    if sc is None or added + op[1] + op[2] > len(extra):
                        ctx.label("op-skipped")
                        continue
                    first = [gs.build_lanelet(l) for l in extra[added:added + op[1]]]
                    rest = [gs.build_lanelet(l) for l in extra[added + op[1]:added + op[1] + op[2]]]
                    added += op[1] + op[2]
                    sc.add_objects([LaneletNetwork.create_from_lanelet_list(first, cleanup_ids=False)] + rest)
                    ln = sc.lanelet_network
                elif kind == "add-network":
                    # merge another network; op[1] new lanelets, one lanelet with an id already in use is placed
                    # somewhere among them (it is rejected with a warning, the others are added)
                    if sc is not None:      # network-level API; behind a scenario's back it would bypass the id pool
                        ctx.label("op-skipped")
                        continue
                    new = [gs.build_lanelet(l) for l in extra[added:added + op[1]]]
                    added += len(new)
                    ids = sorted(x.lanelet_id for x in ln.lanelets)
                    if ids:
                        dup = gs.build_lanelet(dict(extra[0], id=ids[op[2] % len(ids)]))
                        new.insert(op[2] % (len(new) + 1), dup)
                        ctx.label("add-network-with-duplicate-id")
                    if not new:
                        ctx.label("op-skipped")
                        continue
                    other = LaneletNetwork.create_from_lanelet_list(new, cleanup_ids=False)
                    ln.add_lanelets_from_network(other)
                elif kind == "remove":
                    ids = sorted(x.lanelet_id for x in ln.lanelets)
                    if len(ids) <= 1:
                        ctx.label("op-skipped")
                        continue
                    lid = ids[op[1] % len(ids)]
                    if sc is not None:
                        sc.remove_lanelet(ln.find_lanelet_by_id(lid))
                    else:
                        ln.remove_lanelet(lid)
                elif kind == "deepcopy":
                    if sc is not None:
                        sc = copy.deepcopy(sc)
                        ln = sc.lanelet_network
                    else:
                        ln = copy.deepcopy(ln)
                elif kind == "pickle":
                    if sc is not None:
                        sc = pickle.loads(pickle.dumps(sc))
                        ln = sc.lanelet_network
                    else:
                        ln = pickle.loads(pickle.dumps(ln))
            ctx.label("op-" + kind)
            # queries: the last query spec re-evaluated on the current geometry, vs rebuilt network and brute force
            rings = current_rings(ln)
            if not rings:
                continue
            spec, qshape = (last_query[1], last_query[2]) if last_query else (
                {"kind": "in", "lanelet": 0, "u": 0.5, "v": 0.5}, {"k": "circle", "r": 1.0})
            cur = {"lanelets": [{"id": la.lanelet_id, "left": np.asarray(la.left_vertices).tolist(),
                                 "right": np.asarray(la.right_vertices).tolist(),
                                 "center": np.asarray(la.center_vertices).tolist()} for la in ln.lanelets]}
            p = c06.point_from_spec(cur, spec)
            fresh = LaneletNetwork.create_from_lanelet_list(
                [Lanelet(copy.deepcopy(la.left_vertices), copy.deepcopy(la.center_vertices),
                         copy.deepcopy(la.right_vertices), la.lanelet_id) for la in ln.lanelets])
            scale = c06.net_scale(cur)
            # the query point of the history plus one point inside every lanelet the network has now
            points = [p] + [c06.point_from_spec(cur, {"kind": "in", "lanelet": i, "u": 0.5, "v": 0.5})
                            for i in range(len(cur["lanelets"]))]
            for pt in points:
                got = set(ln.find_lanelet_by_position([np.array(pt)])[0])
                exp = set(fresh.find_lanelet_by_position([np.array(pt)])[0])
                must, may = set(), set()
                for lid, ring in rings.items():
                    inside, d = geom.point_in_polygon(pt, ring)
                    if d < 1e-9 * scale:
                        may.add(lid)
                    elif inside:
                        must.add(lid)
                if not (must <= got <= must | may):
                    raise Violation("network-position-lookup-stale-after-" + kind,
                                    "point %r: got %r, rebuilt network %r, brute force %r (band %r)" % (
                                        pt, sorted(got), sorted(exp), sorted(must), sorted(may)))
            q = c06.place_query(qshape, p)
            if q["k"] != "circle":      # circle export is the recorded C06 finding
                g = gg.shape_geo(q)
                got = set(ln.find_lanelet_by_shape(gg.build_shape(q)))
                m2, y2 = c06.lookup_truth(g, rings)
                if not (m2 <= got <= m2 | y2):
                    raise Violation("network-shape-lookup-stale-after-" + kind, "query %r: got %r, brute force %r "
                                    "(band %r)" % (q, sorted(got), sorted(m2), sorted(y2)))
    if queried and mutated_after:
        ctx.nontrivial()


# ------------------------------------------------------------------------------------------------ traffic light
def s_light(tier):
    cyc = st.lists(st.tuples(st.sampled_from([c.name for c in TrafficLightState]), st.integers(1, 9)).map(list),
                   min_size=1, max_size=4)
    op = st.one_of(st.tuples(st.just("query"), st.integers(-5, 40)), st.tuples(st.just("query"), st.integers(-5, 40)),
                   st.tuples(st.just("set-elements"), cyc), st.tuples(st.just("set-offset"), st.integers(0, 12)),
                   st.tuples(st.just("set-duration"), st.integers(0, 3), st.integers(1, 9)),
                   st.tuples(st.just("set-state"), st.integers(0, 3), st.sampled_from([c.name for c in TrafficLightState])),
                   st.tuples(st.just("copy"), st.sampled_from(["deepcopy", "pickle"])),
                   st.tuples(st.just("reorder-in-place"), st.sampled_from(["reverse", "rotate", "repeat-first"])))
    return st.fixed_dictionaries({"cycle": cyc, "offset": st.integers(0, 6), "via": st.sampled_from(["cycle", "light"]),
                                  "ops": st.lists(op, min_size=2, max_size=8)})


def check_light(r, ctx):
    cycle = TrafficLightCycle([TrafficLightCycleElement(TrafficLightState[c], d) for c, d in r["cycle"]], r["offset"])
    light = TrafficLight(4, np.array([0.0, 0.0]), cycle)
    obj = cycle if r["via"] == "cycle" else light
    queried = mutated_after = False
    for op in r["ops"]:
        if op[0] == "query":
            obj.get_state_at_time_step(op[1])
            queried = True
        else:
            if queried:
                mutated_after = True
            if op[0] == "set-elements":
                cycle.cycle_elements = [TrafficLightCycleElement(TrafficLightState[c], d) for c, d in op[1]]
            elif op[0] == "set-duration":
                cycle.cycle_elements[op[1] % len(cycle.cycle_elements)].duration = op[2]
            elif op[0] == "set-state":
                cycle.cycle_elements[op[1] % len(cycle.cycle_elements)].state = TrafficLightState[op[2]]
            elif op[0] == "reorder-in-place":
                els = cycle.cycle_elements      # the list the cycle holds: same phases, other order / one repeated
                if op[1] == "reverse":
                    els.reverse()
                elif op[1] == "rotate":
                    els.append(els.pop(0))
                else:
                    els.append(TrafficLightCycleElement(els[0].state, els[0].duration))
            elif op[0] == "copy":
                # the history continues on a copy (which carries whatever the original had memoised)
                light = copy.deepcopy(light) if op[1] == "deepcopy" else pickle.loads(pickle.dumps(light))
                cycle = light.traffic_light_cycle
                obj = cycle if r["via"] == "cycle" else light
            else:
                cycle.time_offset = op[1]
        ctx.label("op-" + op[0])
        fresh = TrafficLightCycle([TrafficLightCycleElement(e.state, e.duration) for e in cycle.cycle_elements],
                                  cycle.time_offset)
        total = sum(e.duration for e in cycle.cycle_elements)
        for t in range(-5, 3 * total + 1):
            a, b = obj.get_state_at_time_step(t), fresh.get_state_at_time_step(t)
            if a != b:
                raise Violation("light-state-stale-after-" + op[0], "t=%d: %s, freshly built cycle %s" % (t, a, b))
    if queried and mutated_after:
        ctx.nontrivial()


FACETS = [
    Facet("dynamic-obstacle", check_obstacle, strategy=s_obstacle, quick=2000, thorough=25000,
          rule="2-14 steps of query / translate_rotate (obstacle, prediction, its trajectory, containing scenario) / trajectory and "
               "shape setters / update_prediction / update_initial_state with max_history_length 1-4; occupancy and "
               "state at t=0..10 vs rebuilt obstacle; history list model; non-trivial = a mutation after a query"),
    Facet("static-obstacle", check_static, strategy=s_static, quick=2000, thorough=40000,
          rule="static obstacle (shapes with and without an own centre offset) in a scenario: 2-10 steps of query / "
               "translate_rotate (obstacle, scenario) / initial_state setter / deepcopy / pickle; occupancy per "
               "obstacle and through the scenario vs a freshly built obstacle"),
    Facet("lanelet", check_lanelet, strategy=s_lanelet, quick=3000, thorough=60000,
          rule="query (distance, interpolate, polygon, inner distance) / translate_rotate; polygon, distances, "
               "interpolation, containment vs rebuilt lanelet"),
    Facet("network", check_network, strategy=s_network, quick=2400, thorough=30000,
          rule="network- or scenario-level histories of lookups / translate_rotate / add / remove lanelet / deepcopy / "
               "pickle; lookups by position and shape vs rebuilt network and brute force"),
    Facet("traffic-light", check_light, strategy=s_light, quick=3000, thorough=60000,
          rule="query / cycle_elements setter / time_offset setter via cycle or light; state at t=-5..3 periods vs "
               "freshly built cycle"),
]
