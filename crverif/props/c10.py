"""C10 - removing or cutting out network elements leaves no dangling references.

Histories of removals (Scenario.remove_* and LaneletNetwork.remove_*) and cut-outs (create_from_lanelet_network by
shape / lanelet types, create_from_lanelet_list) are interpreted step by step against a relation-graph model that is
derived from the recipe only. After every step the network is read back through its public accessors and compared.
"""
import copy

import numpy as np
from hypothesis import strategies as st

from commonroad.common.common_lanelet import LaneletType
from commonroad.scenario.lanelet import LaneletNetwork

from crverif.core import Facet, Violation
from crverif.gen import geometry as gg
from crverif.gen import networks as gn
from crverif.oracle import geom

RULE = ("relation-graph model of the network kept from the recipe; after every removal / cut-out every id-valued "
        "attribute read through the public accessors must exist, equal 'original intersected with remaining', and all "
        "other content must be unchanged; a history is non-trivial when some step removes ids that a remaining "
        "element references, splits a shared sign/light, or splits an intersection")
ASSUMPTIONS = [
    "networks are well-formed by construction: 2-8 lanelets with simple polygons, predecessor/successor symmetric, "
    "adjacency mutual with consistent direction flags, every sign/light referenced by >= 1 lanelet, stop lines refer "
    "only to signs/lights of their own lanelet, incoming elements have >= 1 incoming lanelet, all ids pairwise distinct",
    "only elements contained in the scenario / network are removed through Scenario.remove_* (removing an absent "
    "element is not 'removing an element'); LaneletNetwork.remove_* with an absent id is documented as a no-op and "
    "checked as such",
    "cut-out shapes are Rectangle / Circle / Polygon (a ShapeGroup exports no geometry to intersect with); a lanelet "
    "whose intersection with the shape changes under a 1e-6 relative growth/shrink of the shape (circles: 0.2 % for the "
    "64-gon export) is a band case and may be kept or dropped",
    "cleanup_ids=False is the documented opt-out and is not exercised",
    "TrafficSign.first_occurrence and IntersectionIncomingElement.left_of are not among the reference kinds the "
    "statement lists: any value between 'unchanged' and 'cleaned' is accepted",
    "stop-line references None and empty set are not distinguished",
    "cut-outs: presence is demanded of lanelets, signs, lights and of incoming elements (with their intersection) "
    "that have a successor and none of whose lanelets was cut away; any other intersection or incoming element may be "
    "dropped or kept (the statement does not say which), whatever is kept must equal 'original intersected with "
    "kept'; after removals an incoming element may only disappear when all its incoming lanelets were removed",
    "create_from_lanelet_list receives lanelets only, so its result has no signs, lights or intersections and every "
    "sign/light reference of the copied lanelets must be gone",
    "with referenced_elements=True a sign/light must disappear iff it was referenced by a removed lanelet and by no "
    "remaining one (documentation of remove_hanging_lanelet_members for the 'if' direction)",
]

ABSENT_ID = 900
KNOWN_CIRCLE = "circle-export-half-radius"      # same bucket name as in C06 (recorded finding, see known_findings.json)


# ------------------------------------------------------------------------------------------------ model / observation
def _lanelet_content(r):
    return {"left": r["left"], "center": r["center"], "right": r["right"], "lm_left": r["lm_left"],
            "lm_right": r["lm_right"], "types": sorted(r["types"]), "users_one": sorted(r["users_one"]),
            "users_bi": sorted(r["users_bi"]), "areas": [], "static": [], "dynamic": []}


def model_from_recipe(r):
    m = {"L": {}, "S": {}, "T": {}, "I": {}}
    for la in r["lanelets"]:
        sl = None
        if la["stop_line"] is not None:
            s = la["stop_line"]
            sl = {"start": s["start"], "end": s["end"], "marking": s["marking"],
                  "sign_ref": None if s["sign_ref"] is None else sorted(s["sign_ref"]),
                  "light_ref": None if s["light_ref"] is None else sorted(s["light_ref"])}
        m["L"][la["id"]] = {"pred": sorted(la["pred"]), "succ": sorted(la["succ"]), "al": la["adj_left"],
                            "als": la["adj_left_same"], "ar": la["adj_right"], "ars": la["adj_right_same"],
                            "signs": sorted(la["signs"]), "lights": sorted(la["lights"]), "sl": sl,
                            "content": _lanelet_content(la)}
    for s in r["signs"]:
        m["S"][s["id"]] = {"content": {"elements": sorted([e[0], e[1], sorted(e[2])] for e in s["elements"]),
                                       "pos": s["pos"], "virtual": s["virtual"]}, "first": sorted(s["first"])}
    for t in r["lights"]:
        m["T"][t["id"]] = {"content": {"pos": t["pos"], "cycle": [list(c) for c in t["cycle"]], "offset": t["offset"],
                                       "active": t["active"], "cycle_active": t["active"],
                                       "direction": t["direction"], "color": []}}
    for x in r["intersections"]:
        m["I"][x["id"]] = {"inc": {i["id"]: {"lanelets": sorted(i["lanelets"]), "right": sorted(i["right"]),
                                             "straight": sorted(i["straight"]), "left": sorted(i["left"]),
                                             "left_of": i["left_of"]} for i in x["incomings"]},
                           "crossings": sorted(x["crossings"])}
    return m


def _ids(x):
    return None if x is None else sorted(int(v) for v in x)


def _arr(a):
    return np.asarray(a, dtype=float).tolist()


def observe(net):
    """Everything the statement talks about, read through public accessors only."""
    o = {"L": {}, "S": {}, "T": {}, "I": {}}
    for la in net.lanelets:
        sl = None
        if la.stop_line is not None:
            s = la.stop_line
            sl = {"start": _arr(s.start), "end": _arr(s.end), "marking": s.line_marking.value,
                  "sign_ref": _ids(s.traffic_sign_ref), "light_ref": _ids(s.traffic_light_ref)}
        o["L"][int(la.lanelet_id)] = {
            "pred": sorted(int(v) for v in la.predecessor), "succ": sorted(int(v) for v in la.successor),
            "al": la.adj_left, "als": la.adj_left_same_direction, "ar": la.adj_right,
            "ars": la.adj_right_same_direction, "signs": _ids(la.traffic_signs), "lights": _ids(la.traffic_lights),
            "sl": sl,
            "content": {"left": _arr(la.left_vertices), "center": _arr(la.center_vertices),
                        "right": _arr(la.right_vertices), "lm_left": la.line_marking_left_vertices.value,
                        "lm_right": la.line_marking_right_vertices.value,
                        "types": sorted(t.value for t in la.lanelet_type),
                        "users_one": sorted(u.value for u in la.user_one_way),
                        "users_bi": sorted(u.value for u in la.user_bidirectional),
                        "areas": _ids(la.adjacent_areas), "static": _ids(la.static_obstacles_on_lanelet),
                        "dynamic": sorted(la.dynamic_obstacles_on_lanelet)}}
    for s in net.traffic_signs:
        o["S"][int(s.traffic_sign_id)] = {
            "content": {"elements": sorted([type(e.traffic_sign_element_id).__name__, e.traffic_sign_element_id.name,
                                            sorted(e.additional_values)] for e in s.traffic_sign_elements),
                        "pos": _arr(s.position), "virtual": s.virtual},
            "first": _ids(s.first_occurrence)}
    for t in net.traffic_lights:
        cyc = t.traffic_light_cycle
        o["T"][int(t.traffic_light_id)] = {
            "content": {"pos": _arr(t.position), "cycle": [[e.state.value, e.duration] for e in cyc.cycle_elements],
                        "offset": cyc.time_offset, "active": t.active, "cycle_active": cyc.active,
                        "direction": t.direction.value, "color": [c.value for c in t.color]}}
    for x in net.intersections:
        o["I"][int(x.intersection_id)] = {
            "inc": {int(i.incoming_id): {"lanelets": _ids(i.incoming_lanelets), "right": _ids(i.successors_right),
                                         "straight": _ids(i.successors_straight), "left": _ids(i.successors_left),
                                         "left_of": i.left_of} for i in x.incomings},
            "crossings": _ids(x.crossings),
            # derived reference map (public accessor): lanelet id -> incoming element
            "map_inc": {int(k): int(v.incoming_id) for k, v in x.map_incoming_lanelets.items()}}
    o["map_inc_net"] = {int(k): int(v.intersection_id) for k, v in net.map_inc_lanelets_to_intersections.items()}
    return o


def check_no_dangling(o, tag, detail):
    """Independent of the model: every id-valued attribute refers to something that exists in the same network."""
    lan, sig, lig = set(o["L"]), set(o["S"]), set(o["T"])

    def bad(kind, owner, ids, pool):
        miss = sorted(set(ids or ()) - pool)
        if miss:
            raise Violation("%s/dangling-%s" % (tag, kind), "%s refers to %r which is not in the network; %s" % (
                owner, miss, detail()))
    for lid, la in sorted(o["L"].items()):
        bad("predecessor", "lanelet %d" % lid, la["pred"], lan)
        bad("successor", "lanelet %d" % lid, la["succ"], lan)
        bad("adj-left", "lanelet %d" % lid, [] if la["al"] is None else [la["al"]], lan)
        bad("adj-right", "lanelet %d" % lid, [] if la["ar"] is None else [la["ar"]], lan)
        bad("lanelet-sign-ref", "lanelet %d" % lid, la["signs"], sig)
        bad("lanelet-light-ref", "lanelet %d" % lid, la["lights"], lig)
        if la["sl"] is not None:
            bad("stopline-sign-ref", "stop line of lanelet %d" % lid, la["sl"]["sign_ref"], sig)
            bad("stopline-light-ref", "stop line of lanelet %d" % lid, la["sl"]["light_ref"], lig)
        for side in ("l", "r"):
            if (la["a" + side] is None) != (la["a" + side + "s"] is None):
                raise Violation("%s/adj-flag-none-mismatch" % tag, "lanelet %d: adj_%s=%r but same_direction=%r; %s" % (
                    lid, "left" if side == "l" else "right", la["a" + side], la["a" + side + "s"], detail()))
    for xid, x in sorted(o["I"].items()):
        for iid, inc in sorted(x["inc"].items()):
            who = "incoming %d of intersection %d" % (iid, xid)
            bad("incoming-lanelets", who, inc["lanelets"], lan)
            bad("successors-right", who, inc["right"], lan)
            bad("successors-straight", who, inc["straight"], lan)
            bad("successors-left", who, inc["left"], lan)
        bad("crossings", "intersection %d" % xid, x["crossings"], lan)
        bad("incoming-map", "map_incoming_lanelets of intersection %d" % xid, sorted(x.get("map_inc", {})), lan)
        union = sorted({v for inc in x["inc"].values() for v in inc["lanelets"] or ()})
        if "map_inc" in x and sorted(x["map_inc"]) != union:
            raise Violation("%s/incoming-map-differs" % tag, "intersection %d: map_incoming_lanelets has keys %r, the "
                            "incoming elements list %r; %s" % (xid, sorted(x["map_inc"]), union, detail()))
    bad("network-incoming-map", "map_inc_lanelets_to_intersections", sorted(o.get("map_inc_net", {})), lan)


def _setdiff(tag, what, owner, exp, got, detail):
    e, g = set(exp or ()), set(got or ())
    if e - g:
        raise Violation("%s/%s-lost" % (tag, what), "%s: expected %r, got %r (a relation between remaining elements "
                        "was dropped); %s" % (owner, sorted(e), sorted(g), detail()))
    if g - e:
        raise Violation("%s/%s-extra" % (tag, what), "%s: expected %r, got %r; %s" % (owner, sorted(e), sorted(g),
                                                                                      detail()))


def compare(m, o, tag, detail, required=None):
    """Model m (expected) against observation o. Prunes optional intersection parts of m to what was observed.
    required=None: removal semantics (every intersection stays; an incoming element may only vanish when it has no
    incoming lanelet left). required=set of (intersection id, incoming id): cut-out semantics (only these incoming
    elements, and hence their intersections, must be present)."""
    lenient_intersections = required is not None
    for key, name in (("L", "lanelet"), ("S", "sign"), ("T", "light")):
        miss, extra = sorted(set(m[key]) - set(o[key])), sorted(set(o[key]) - set(m[key]))
        if miss:
            raise Violation("%s/%s-missing" % (tag, name), "%ss %r were not selected for removal but are gone; %s" % (
                name, miss, detail()))
        if extra:
            raise Violation("%s/%s-not-removed" % (tag, name), "%ss %r should be gone; %s" % (name, extra, detail()))
    for lid in sorted(m["L"]):
        e, g = m["L"][lid], o["L"][lid]
        who = "lanelet %d" % lid
        _setdiff(tag, "predecessor", who, e["pred"], g["pred"], detail)
        _setdiff(tag, "successor", who, e["succ"], g["succ"], detail)
        for side, nm in (("l", "left"), ("r", "right")):
            if e["a" + side] != g["a" + side]:
                raise Violation("%s/adj-%s-changed" % (tag, nm), "%s: expected %r, got %r; %s" % (
                    who, e["a" + side], g["a" + side], detail()))
            if e["a" + side + "s"] != g["a" + side + "s"]:
                raise Violation("%s/adj-%s-flag-changed" % (tag, nm), "%s: expected %r, got %r; %s" % (
                    who, e["a" + side + "s"], g["a" + side + "s"], detail()))
        _setdiff(tag, "lanelet-sign-ref", who, e["signs"], g["signs"], detail)
        _setdiff(tag, "lanelet-light-ref", who, e["lights"], g["lights"], detail)
        if (e["sl"] is None) != (g["sl"] is None):
            raise Violation("%s/stopline-presence" % tag, "%s: expected %r, got %r; %s" % (who, e["sl"], g["sl"],
                                                                                         detail()))
        if e["sl"] is not None:
            _setdiff(tag, "stopline-sign-ref", who, e["sl"]["sign_ref"], g["sl"]["sign_ref"], detail)
            _setdiff(tag, "stopline-light-ref", who, e["sl"]["light_ref"], g["sl"]["light_ref"], detail)
            for k in ("start", "end", "marking"):
                if e["sl"][k] != g["sl"][k]:
                    raise Violation("%s/stopline-content-changed" % tag, "%s %s: %r vs %r; %s" % (
                        who, k, e["sl"][k], g["sl"][k], detail()))
        if e["content"] != g["content"]:
            diff = [k for k in e["content"] if e["content"][k] != g["content"][k]]
            raise Violation("%s/lanelet-content-changed" % tag, "%s fields %r: expected %r, got %r; %s" % (
                who, diff, [e["content"][k] for k in diff], [g["content"][k] for k in diff], detail()))
    for key, name in (("S", "sign"), ("T", "light")):
        for i in sorted(m[key]):
            if m[key][i]["content"] != o[key][i]["content"]:
                raise Violation("%s/%s-content-changed" % (tag, name), "%s %d: expected %r, got %r; %s" % (
                    name, i, m[key][i]["content"], o[key][i]["content"], detail()))
    for i in sorted(m["S"]):
        e, g = set(m["S"][i]["first"]), set(o["S"][i]["first"] or ())
        if not (e & set(m["L"]) <= g <= e):
            raise Violation("%s/sign-first-occurrence-invented" % tag, "sign %d: original %r, got %r; %s" % (
                i, sorted(e), sorted(g), detail()))
    # intersections
    extra = sorted(set(o["I"]) - set(m["I"]))
    if extra:
        raise Violation("%s/intersection-not-removed" % tag, "intersections %r should be gone; %s" % (extra, detail()))
    miss = sorted(set(m["I"]) - set(o["I"]))
    if lenient_intersections:
        hard = sorted(x for x in miss if any(q[0] == x for q in required))
        if hard:
            raise Violation("%s/intersection-missing" % tag, "intersections %r have incoming elements none of whose "
                            "lanelets were cut away, but are gone; %s" % (hard, detail()))
    elif miss:
        raise Violation("%s/intersection-missing" % tag, "intersections %r were not selected for removal but are "
                        "gone; %s" % (miss, detail()))
    for xid in miss:
        del m["I"][xid]
    for xid in sorted(m["I"]):
        e, g = m["I"][xid], o["I"][xid]
        extra = sorted(set(g["inc"]) - set(e["inc"]))
        if extra:
            raise Violation("%s/incoming-invented" % tag, "intersection %d has incoming elements %r; %s" % (
                xid, extra, detail()))
        for iid in sorted(set(e["inc"]) - set(g["inc"])):
            if (e["inc"][iid]["lanelets"] if not lenient_intersections else (xid, iid) in required):
                raise Violation("%s/incoming-missing" % tag, "incoming %d of intersection %d (incoming lanelets %r "
                                "remain, required=%s) is gone; %s" % (iid, xid, e["inc"][iid]["lanelets"],
                                                                     lenient_intersections, detail()))
            del e["inc"][iid]
        for iid in sorted(e["inc"]):
            who = "incoming %d of intersection %d" % (iid, xid)
            _setdiff(tag, "incoming-lanelets", who, e["inc"][iid]["lanelets"], g["inc"][iid]["lanelets"], detail)
            _setdiff(tag, "successors-right", who, e["inc"][iid]["right"], g["inc"][iid]["right"], detail)
            _setdiff(tag, "successors-straight", who, e["inc"][iid]["straight"], g["inc"][iid]["straight"], detail)
            _setdiff(tag, "successors-left", who, e["inc"][iid]["left"], g["inc"][iid]["left"], detail)
            if g["inc"][iid]["left_of"] not in (e["inc"][iid]["left_of"], None):
                raise Violation("%s/left-of-invented" % tag, "%s: original %r, got %r; %s" % (
                    who, e["inc"][iid]["left_of"], g["inc"][iid]["left_of"], detail()))
        _setdiff(tag, "crossings", "intersection %d" % xid, e["crossings"], g["crossings"], detail)


# ------------------------------------------------------------------------------------------------ model transitions
def m_remove_lanelets(m, rem):
    rem = set(rem)
    for r in rem:
        del m["L"][r]
    for la in m["L"].values():
        la["pred"] = [v for v in la["pred"] if v not in rem]
        la["succ"] = [v for v in la["succ"] if v not in rem]
        for side in ("l", "r"):
            if la["a" + side] in rem:
                la["a" + side], la["a" + side + "s"] = None, None
    for x in m["I"].values():
        for inc in x["inc"].values():
            for k in ("lanelets", "right", "straight", "left"):
                inc[k] = [v for v in inc[k] if v not in rem]
        x["crossings"] = [v for v in x["crossings"] if v not in rem]


def m_remove_signs(m, rem, key="S"):
    rem = set(rem)
    ref, slref = ("signs", "sign_ref") if key == "S" else ("lights", "light_ref")
    for r in rem:
        del m[key][r]
    for la in m["L"].values():
        la[ref] = [v for v in la[ref] if v not in rem]
        if la["sl"] is not None and la["sl"][slref] is not None:
            la["sl"][slref] = [v for v in la["sl"][slref] if v not in rem]


def m_hanging(m, rem, ref):
    rem = set(rem)
    gone = set().union(*[set(m["L"][r][ref]) for r in rem]) if rem else set()
    kept = set()
    for lid, la in m["L"].items():
        if lid not in rem:
            kept |= set(la[ref])
    return gone - kept


def nontrivial_lanelet_removal(m, rem):
    """The removed lanelets are referenced by a remaining element / share a sign or light with a kept lanelet /
    an intersection spans removed and kept lanelets."""
    rem = set(rem)
    if not rem or rem == set(m["L"]):
        return False
    for lid, la in m["L"].items():
        if lid in rem:
            continue
        if rem & (set(la["pred"]) | set(la["succ"]) | {la["al"], la["ar"]}):
            return True
    for ref in ("signs", "lights"):
        a = set().union(*[set(m["L"][r][ref]) for r in rem])
        b = set().union(*[set(la[ref]) for lid, la in m["L"].items() if lid not in rem])
        if a & b:
            return True
    for x in m["I"].values():
        ids = set(x["crossings"])
        for inc in x["inc"].values():
            ids |= set(inc["lanelets"]) | set(inc["right"]) | set(inc["straight"]) | set(inc["left"])
        if ids & rem and ids - rem:
            return True
    return False


# ------------------------------------------------------------------------------------------------ interpreter
def _pick(ids, sel):
    ids = sorted(ids)
    out = []
    for s in sel:
        v = ids[s % len(ids)]
        if v not in out:
            out.append(v)
    return out


def run_history(r, ctx, scenario_mode):
    net_r = r["net"]
    model = model_from_recipe(net_r)
    rings = {la["id"]: gn.ring(la) for la in net_r["lanelets"]}
    types = {la["id"]: set(la["types"]) for la in net_r["lanelets"]}
    if scenario_mode:
        sc = gn.build_scenario(net_r, by_objects=r.get("build") == "objects")
        net = sc.lanelet_network
    else:
        sc = None
        net = gn.build_network(net_r)
    step = [-1, None]
    known = [None]

    def detail():
        return "step %d op %r of history %r" % (step[0], step[1], [o["op"] for o in r["ops"]])

    obs = observe(net)
    check_no_dangling(obs, "build", detail)
    compare(model, obs, "build", detail)
    nt = False
    ctx.label("lanelets-%d" % len(net_r["lanelets"]))
    siblings = []     # networks a cut-out was taken from / produced earlier: later removals must not reach them

    def check_siblings():
        for stag, snet, sobs in siblings:
            now = observe(snet)
            if now != sobs:
                diff = [(k2, i) for k2 in ("L", "S", "T", "I") for i in sobs[k2] if sobs[k2].get(i) != now[k2].get(i)]
                raise Violation("%s/other-network-changed-later" % stag, "a network that was not operated on changed: "
                                "entries %r: before %r now %r; %s" % (diff[:4], [sobs[a][b] for a, b in diff[:2]],
                                                                      [now[a].get(b) for a, b in diff[:2]], detail()))
    for k, op in enumerate(r["ops"]):
        check_siblings()
        step[0], step[1] = k, op
        name = op["op"]
        tag = name
        if name in ("s_rm_lanelet", "n_rm_lanelet"):
            if not model["L"]:
                ctx.label("skip-no-lanelet")
                continue
            if name == "n_rm_lanelet" and op.get("absent"):
                net.remove_lanelet(ABSENT_ID)
                ctx.label("op-n_rm_lanelet-absent")
            else:
                rem = _pick(model["L"], op["sel"] if name == "s_rm_lanelet" else [op["sel"]])
                if name == "s_rm_lanelet" and not op["list"]:
                    rem = rem[:1]
                if not rem:
                    ctx.label("empty-list-form")
                if nontrivial_lanelet_removal(model, rem):
                    nt = True
                    ctx.label("nontrivial-lanelet-removal")
                if name == "s_rm_lanelet":
                    tag = "s_rm_lanelet[%s,%s]" % ("list" if op["list"] else "single", "ref" if op["ref"] else "noref")
                    objs = [net.find_lanelet_by_id(i) for i in rem]
                    sc.remove_lanelet(objs if op["list"] else objs[0], referenced_elements=op["ref"])
                    if op["ref"] and rem:
                        hs, hl = m_hanging(model, rem, "signs"), m_hanging(model, rem, "lights")
                        shared = (set().union(*[set(model["L"][i]["signs"]) | set(model["L"][i]["lights"])
                                                for i in rem])) - hs - hl
                        ctx.label("hanging-removed" if hs or hl else "hanging-none")
                        if shared:
                            ctx.label("shared-sign-or-light-kept")
                        m_remove_signs(model, hs, "S")
                        m_remove_signs(model, hl, "T")
                else:
                    net.remove_lanelet(rem[0])
                m_remove_lanelets(model, rem)
                ctx.label("op-" + tag)
        elif name in ("s_rm_sign", "n_rm_sign", "s_rm_light", "n_rm_light"):
            key = "S" if name.endswith("sign") else "T"
            if name.startswith("n_") and op.get("absent"):
                (net.remove_traffic_sign if key == "S" else net.remove_traffic_light)(ABSENT_ID)
                ctx.label("op-%s-absent" % name)
            else:
                if not model[key]:
                    ctx.label("skip-no-" + ("sign" if key == "S" else "light"))
                    continue
                rem = _pick(model[key], op["sel"] if name.startswith("s_") else [op["sel"]])
                if name.startswith("s_") and not op["list"]:
                    rem = rem[:1]
                if not rem:
                    ctx.label("empty-list-form")
                ref, slref = ("signs", "sign_ref") if key == "S" else ("lights", "light_ref")
                if any(set(rem) & set(la[ref]) for la in model["L"].values()):
                    nt = True
                if any(la["sl"] is not None and set(rem) & set(la["sl"][slref] or ()) for la in model["L"].values()):
                    ctx.label("removed-%s-referenced-by-stop-line" % ("sign" if key == "S" else "light"))
                find = net.find_traffic_sign_by_id if key == "S" else net.find_traffic_light_by_id
                if name.startswith("s_"):
                    tag = "%s[%s]" % (name, "list" if op["list"] else "single")
                    objs = [find(i) for i in rem]
                    (sc.remove_traffic_sign if key == "S" else sc.remove_traffic_light)(objs if op["list"] else objs[0])
                else:
                    (net.remove_traffic_sign if key == "S" else net.remove_traffic_light)(rem[0])
                m_remove_signs(model, rem, key)
                ctx.label("op-" + tag)
        elif name in ("s_rm_inter", "n_rm_inter"):
            if name == "n_rm_inter" and op.get("absent"):
                net.remove_intersection(ABSENT_ID)
                ctx.label("op-n_rm_inter-absent")
            else:
                if not model["I"]:
                    ctx.label("skip-no-intersection")
                    continue
                rem = _pick(model["I"], op["sel"] if name == "s_rm_inter" else [op["sel"]])
                if name == "s_rm_inter":
                    if not op["list"]:
                        rem = rem[:1]
                    if not rem:
                        ctx.label("empty-list-form")
                    tag = "s_rm_inter[%s]" % ("list" if op["list"] else "single")
                    objs = [net.find_intersection_by_id(i) for i in rem]
                    sc.remove_intersection(objs if op["list"] else objs[0])
                else:
                    net.remove_intersection(rem[0])
                for i in rem:
                    del model["I"][i]
                ctx.label("op-" + tag)
        elif name in ("cut", "from_list"):
            if not model["L"]:
                ctx.label("skip-no-lanelet")
                continue
            before = obs
            if name == "cut":
                shape_r, excl = op["shape"], op["types"]
                tag = "cut[%s%s]" % ("shape" if shape_r is not None else "", "types" if excl else "")
                kw = {}
                if shape_r is not None:
                    kw["shape_input"] = gg.build_shape(shape_r)
                if excl is not None:
                    kw["exclude_lanelet_types"] = {LaneletType(t) for t in excl}
                new = LaneletNetwork.create_from_lanelet_network(net, **kw)
                g = None if shape_r is None else gg.shape_geo(shape_r)

                def truth(geo):
                    must_, may_ = set(), set()
                    for lid in model["L"]:
                        if excl and types[lid] & set(excl):
                            continue
                        hit = True if geo is None else geom.robust_intersects(geo, rings[lid])
                        if hit is None:
                            may_.add(lid)
                        elif hit:
                            must_.add(lid)
                    return must_, may_
                must, may = truth(g)
                if may:
                    ctx.band_case("cut-band-lanelet")
            else:
                sub = _pick(model["L"], op["sel"])
                tag = "from_list"
                new = LaneletNetwork.create_from_lanelet_list([net.find_lanelet_by_id(i) for i in sub])
                must, may = set(sub), set()
            after = observe(net)
            if after != before:
                diff = [(k2, i) for k2 in before for i in before[k2] if before[k2].get(i) != after[k2].get(i)]
                raise Violation("%s/original-network-changed" % tag, "changed entries %r: before %r after %r; %s" % (
                    diff[:4], [before[a][b] for a, b in diff[:2]], [after[a].get(b) for a, b in diff[:2]], detail()))
            nobs = observe(new)
            got = set(nobs["L"])
            if not (must <= got <= must | may):
                attributed = False
                if name == "cut" and shape_r is not None and shape_r["k"] == "circle":
                    # recorded finding: Circle.shapely_object is a disc of HALF the radius. Used only to attribute a
                    # failure that is already established; everything below is still checked relative to the lanelets
                    # actually kept and the known-signature violation is raised last (end of the history).
                    must2, may2 = truth(dict(g, r=0.5 * g["r"]))
                    if must2 <= got <= must2 | may2:
                        attributed = True
                        ctx.label("known-circle-half-radius")
                        if known[0] is None:
                            known[0] = ("cut-out by a circle kept %r: matches a disc of HALF the radius (truth for the "
                                        "circle %r, band %r); %s" % (sorted(got), sorted(must), sorted(may), detail()))
                if not attributed:
                    if must - got:
                        raise Violation("%s/lanelet-missing" % tag, "lanelets %r belong to the cut-out but are missing "
                                        "(kept %r); %s" % (sorted(must - got), sorted(got), detail()))
                    raise Violation("%s/lanelet-not-removed" % tag, "lanelets %r do not belong to the cut-out "
                                    "(expected %r); %s" % (sorted(got - must - may), sorted(must), detail()))
            rem = set(model["L"]) - got
            if nontrivial_lanelet_removal(model, rem):
                nt = True
                ctx.label("nontrivial-cut")
            ctx.label("%s-kept-%s" % (name, "none" if not got else "all" if not rem else "some"))
            # incoming elements none of whose lanelets are cut away (and that have a successor) must survive a cut-out
            required = set()
            if name == "cut":
                for xid, x in model["I"].items():
                    for iid, inc in x["inc"].items():
                        succ = set(inc["right"]) | set(inc["straight"]) | set(inc["left"])
                        if succ and inc["lanelets"] and (succ | set(inc["lanelets"])) <= got:
                            required.add((xid, iid))
                if required:
                    ctx.label("cut-with-untouched-incoming")
            nm = copy.deepcopy(model)
            m_remove_lanelets(nm, rem)
            if name == "cut":
                keep_s = set().union(*[set(la["signs"]) for la in nm["L"].values()]) if nm["L"] else set()
                keep_t = set().union(*[set(la["lights"]) for la in nm["L"].values()]) if nm["L"] else set()
                for key, keep in (("S", keep_s), ("T", keep_t)):
                    for i in set(nm[key]) - keep:
                        del nm[key][i]      # referenced by no kept lanelet: nothing to clean in the lanelets
            else:
                m_remove_signs(nm, set(nm["S"]), "S")
                m_remove_signs(nm, set(nm["T"]), "T")
                nm["I"] = {}
            ctx.label("op-" + tag)
            check_no_dangling(nobs, tag, detail)
            compare(nm, nobs, tag, detail, required)
            if op.get("adopt") and not scenario_mode:
                siblings.append((tag, net, after))
                net, model, obs = new, nm, nobs
                ctx.label("adopted-result")
            else:
                siblings.append((tag, new, nobs))
            continue
        else:
            raise ValueError(name)
        obs = observe(net)
        check_no_dangling(obs, tag, detail)
        compare(model, obs, tag, detail)
    check_siblings()
    if siblings:
        ctx.label("two-networks-alive")
    if nt:
        ctx.nontrivial()
    if known[0] is not None:
        raise Violation(KNOWN_CIRCLE, known[0])


def check_scenario(r, ctx):
    run_history(r, ctx, True)


def check_network(r, ctx):
    run_history(r, ctx, False)


# ------------------------------------------------------------------------------------------------ strategies
SEL = st.lists(st.integers(0, 7), min_size=1, max_size=3)


def _form(d):
    """List forms may be empty (removing nothing); the single form needs one element."""
    out = {k: v for k, v in d.items() if k != "empty"}
    if d["list"] and d["empty"]:
        out["sel"] = []
    return out


EMPTY = st.sampled_from([False] * 11 + [True])


def scenario_ops():
    return [
        st.fixed_dictionaries({"op": st.just("s_rm_lanelet"), "sel": SEL, "list": st.booleans(), "ref": st.booleans(),
                               "empty": EMPTY}).map(_form),
        st.fixed_dictionaries({"op": st.just("s_rm_lanelet"), "sel": SEL, "list": st.booleans(), "ref": st.just(True),
                               "empty": EMPTY}).map(_form),
        st.fixed_dictionaries({"op": st.just("s_rm_sign"), "sel": SEL, "list": st.booleans(),
                               "empty": EMPTY}).map(_form),
        st.fixed_dictionaries({"op": st.just("s_rm_light"), "sel": SEL, "list": st.booleans(),
                               "empty": EMPTY}).map(_form),
        st.fixed_dictionaries({"op": st.just("s_rm_inter"), "sel": SEL, "list": st.booleans(),
                               "empty": EMPTY}).map(_form),
    ]


def network_ops():
    absent = st.sampled_from([False] * 7 + [True])
    return [
        st.fixed_dictionaries({"op": st.just("n_rm_lanelet"), "sel": st.integers(0, 7), "absent": absent}),
        st.fixed_dictionaries({"op": st.just("n_rm_lanelet"), "sel": st.integers(0, 7), "absent": st.just(False)}),
        st.fixed_dictionaries({"op": st.just("n_rm_sign"), "sel": st.integers(0, 7), "absent": absent}),
        st.fixed_dictionaries({"op": st.just("n_rm_light"), "sel": st.integers(0, 7), "absent": absent}),
        st.fixed_dictionaries({"op": st.just("n_rm_inter"), "sel": st.integers(0, 7), "absent": absent}),
    ]


def cut_ops(net):
    used = sorted({t for la in net["lanelets"] for t in la["types"]})
    pool = used + used + gn.TYPE_POOL if used else gn.TYPE_POOL
    tset = st.lists(st.sampled_from(pool), min_size=1, max_size=2, unique=True).map(sorted)
    shape = gn.cut_shape(net)
    return [
        st.fixed_dictionaries({"op": st.just("cut"), "shape": shape, "types": st.sampled_from([None, []]),
                               "adopt": st.booleans()}),
        st.fixed_dictionaries({"op": st.just("cut"), "shape": st.none(), "types": tset, "adopt": st.booleans()}),
        st.fixed_dictionaries({"op": st.just("cut"), "shape": shape, "types": tset, "adopt": st.booleans()}),
    ]


def list_ops():
    return [st.fixed_dictionaries({"op": st.just("from_list"),
                                   "sel": st.lists(st.integers(0, 7), min_size=1, max_size=6),
                                   "adopt": st.booleans()})]


def history(kind, lo=1, hi=6):
    def ops_for(net):
        if kind == "scenario":
            pool = scenario_ops()
        elif kind == "network":
            pool = network_ops()
        elif kind == "cut":
            pool = cut_ops(net) * 2 + network_ops()[1:]
        elif kind == "list":
            pool = list_ops() * 4 + network_ops()[1:]
        else:
            pool = scenario_ops() + network_ops() + cut_ops(net) + list_ops()
        d = {"net": st.just(net), "ops": st.lists(st.one_of(*pool), min_size=lo, max_size=hi)}
        if kind in ("scenario", "mixed"):
            d["build"] = st.sampled_from(["network", "network", "objects"])
        return st.fixed_dictionaries(d)
    return gn.network().flatmap(ops_for)


NT = ("; non-trivial = some step removes lanelets that a remaining lanelet/intersection references, or a sign/light "
      "shared between removed and kept lanelets, or a sign/light that lanelets reference, or an intersection that spans "
      "removed and kept lanelets")
FACETS = [
    Facet("scenario-removals", check_scenario, strategy=lambda tier: history("scenario"), quick=1800, thorough=24000,
          max_shrink_s=20,
          rule="1-6 Scenario.remove_lanelet(+-referenced elements) / remove_traffic_sign / remove_traffic_light / "
               "remove_intersection steps (single and list forms) on generated networks added to a Scenario" + NT),
    Facet("network-removals", check_network, strategy=lambda tier: history("network"), quick=1500, thorough=20000,
          max_shrink_s=20,
          rule="1-6 LaneletNetwork.remove_lanelet / remove_traffic_sign / remove_traffic_light / remove_intersection "
               "steps (present and absent ids)" + NT),
    Facet("cutouts", check_network, strategy=lambda tier: history("cut", 1, 4), quick=1800, thorough=24000,
          max_shrink_s=20,
          rule="1-4 steps of create_from_lanelet_network(shape | excluded types | both) interleaved with network-level "
               "removals; results adopted as the current network or discarded; original compared before/after" + NT),
    Facet("lanelet-list", check_network, strategy=lambda tier: history("list", 1, 4), quick=900, thorough=12000,
          max_shrink_s=20,
          rule="1-4 steps of create_from_lanelet_list(subset) interleaved with network-level removals" + NT),
    Facet("mixed", check_scenario, strategy=lambda tier: history("mixed"), quick=1200, thorough=16000,
          max_shrink_s=20,
          rule="1-6 steps mixing scenario-level removals, network-level removals on scenario.lanelet_network and "
               "cut-outs of the scenario's network" + NT),
]
