"""C12 - Equality and hashing of scenario elements follow their contract (one facet per class)."""
import copy
import warnings

from crverif.core import Facet, Violation
from crverif.gen import classes as K

RULE = ("per class: x==x, x==rebuilt x, x==deepcopy(x), x==x with id sets inserted in the opposite order, symmetry and "
        "==/!= consistency of every comparison, hash() total and equal on equal objects; one single-parameter "
        "perturbation per constructor parameter must give != whenever the public-attribute snapshots differ "
        "(independent snapshot through public accessors, never through __eq__/__hash__)")
ASSUMPTIONS = [
    "reals are perturbed by >= 1e-6*(1+|v|) or, for |v| <= 1e3, by an absolute 1e-9..1e-8; differences between 1e-10 "
    "and 1e-9 are never produced (the statement leaves them open); snapshot differences below 5e-10 create no "
    "obligation",
    "a perturbation only obliges when the public-attribute snapshots of the two objects differ (constructors "
    "normalise: ScenarioID defaults and map-name cleaning, None->0/1 in GeoTransformation, None->set()/[] "
    "in several classes, polygon ring closing/orientation, TrafficLight.active without cycle, ignored "
    "adjacent_*_same_direction without neighbour); identical snapshots oblige equality and equal hashes",
    "None <-> empty collection is never used as a perturbation (Obstacle treats both as 'no ids'; the statement does "
    "not decide that pair)",
    "only sets are re-inserted in another order; lists of objects, lists of ids and dicts keep their order",
    "id lists (Lanelet.predecessor/successor, AreaBorder.adjacent, GoalRegion lanelet lists) and "
    "TrafficSignElement.additional_values (documented as list, compared as set) are perturbed in their membership "
    "only, never in order or multiplicity - different under the list and the set reading",
    "elements that the library keys by id are generated with distinct ids (sign elements per sign, incomings per "
    "intersection, planning problems per set, objects per network/scenario); ids >= 0 (> 0 where the library asserts)",
    "Trajectory.initial_time_step is perturbed together with the time steps of its states (the constructor asserts "
    "their agreement); Interval ends keep start <= end; Lanelet polylines keep equal lengths and are moved by "
    "<= 1e-5 relative; polygon vertices likewise (simple polygons stay simple)",
    "DynamicObstacle / TrajectoryPrediction **kwargs (wheelbase_lengths) are left empty; custom state attributes are "
    "scalars, strings, intervals (position: array or shape)",
    "obstacle shapes follow the obstacle convention (centred), obstacle initial states have exact position and "
    "orientation; obstacles inside a Scenario carry no lanelet assignments",
    "MapInformation(date=None) reads the clock: equality of two builds is only required when their snapshots agree",
]


def _cmp(a, b):
    """(a==b, b==a, a!=b, b!=a) as bools."""
    return bool(a == b), bool(b == a), bool(a != b), bool(b != a)


def _pair(cls, tag, a, b, must_equal, detail):
    e1, e2, n1, n2 = _cmp(a, b)
    if e1 != e2:
        raise Violation("%s-asymmetric" % cls, "%s: a==b is %r but b==a is %r; %s" % (tag, e1, e2, detail()))
    if n1 == e1 or n2 == e2:
        raise Violation("%s-ne-inconsistent" % cls, "%s: ==:%r/%r !=:%r/%r; %s" % (tag, e1, e2, n1, n2, detail()))
    if must_equal and not e1:
        raise Violation("%s-%s-unequal" % (cls, tag.split(":")[0]), "%s; %s" % (tag, detail()))
    if not must_equal and e1:
        raise Violation("%s-ignored" % tag.replace("perturb:", ""), "objects differing in %s compare equal; %s" % (
            tag, detail()))


def extra_variants(cls, args):
    """Class-specific single-parameter variants the generic perturbers produce too rarely."""
    out = []
    if cls == "ScenarioID":
        p = args.get("prediction_id")
        if isinstance(p, int) and not isinstance(p, bool):
            out.append({"k": "prediction_id", "set": {"prediction_id": {"$list": [p]}}})      # n -> [n]
        elif isinstance(p, dict) and "$list" in p and len(p["$list"]) >= 1:
            out.append({"k": "prediction_id", "set": {"prediction_id": p["$list"][0]}})        # [n, ...] -> n
    return out


def nudged(args, k):
    """args with the k-th real-valued leaf (mod their number) changed by 1e-13 * (1 + |v|): far inside the zone where
    the statement leaves equality open (< 1e-10); None if the recipe has no real leaf."""
    leaves = []

    def walk(o, path):
        if isinstance(o, float) and o == o and abs(o) < 1e300:
            leaves.append(path)
        elif isinstance(o, dict):
            for kk in sorted(o):
                walk(o[kk], path + [kk])
        elif isinstance(o, list):
            for i, e in enumerate(o):
                walk(e, path + [i])
    walk(args, [])
    if not leaves:
        return None, None
    path = leaves[k % len(leaves)]
    out = copy.deepcopy(args)
    tgt = out
    for kk in path[:-1]:
        tgt = tgt[kk]
    v = tgt[path[-1]]
    tgt[path[-1]] = v + 1e-13 * (1 + abs(v))
    return out, "/".join(str(x) for x in path)


def edit_nested(obj):
    """Edits the first nested component found (fixed walk order, depth <= 4) in place through ITS public setter: a
    rectangle's centre, a circle's radius, a polygon's vertices, an interval's end. Returns a description or None.
    (The walk uses vars() only to find the component; the edit itself is public API.)"""
    import numpy as np
    from commonroad.common.util import Interval
    from commonroad.geometry.shape import Circle, Polygon, Rectangle
    seen = set()

    def walk(o, depth, top):
        if id(o) in seen or depth > 4:
            return None
        seen.add(id(o))
        if not top:
            if isinstance(o, Rectangle):
                o.center = np.asarray(o.center, dtype=float) + np.array([1.0, -1.0])
                return "Rectangle.center"
            if isinstance(o, Circle):
                o.radius = float(o.radius) + 1.0
                return "Circle.radius"
            if isinstance(o, Polygon):
                o.vertices = np.asarray(o.vertices, dtype=float) + np.array([1.0, -1.0])
                return "Polygon.vertices"
            if isinstance(o, Interval) and type(o) is Interval:
                o.end = o.end + 1
                return "Interval.end"
        if isinstance(o, (list, tuple)):
            for e in o:
                r_ = walk(e, depth + 1, False)
                if r_:
                    return r_
            return None
        if isinstance(o, dict):
            for k_ in sorted(o, key=repr):
                r_ = walk(o[k_], depth + 1, False)
                if r_:
                    return r_
            return None
        if type(o).__module__.startswith("commonroad.") and hasattr(o, "__dict__"):
            for k_ in sorted(vars(o)):
                r_ = walk(vars(o)[k_], depth + 1, False)
                if r_:
                    return r_
        return None
    return walk(obj, 0, True)


MOTION = ([3.0, -2.0], 0.7)


def moved(obj):
    """obj after the public rigid motion (mutating or returning a new object), None if the class has none."""
    import numpy as np
    if not hasattr(obj, "translate_rotate"):
        return None
    res = obj.translate_rotate(np.array(MOTION[0]), MOTION[1])
    return obj if res is None else res


def check_case(r, ctx):
    spec = K.SPECS[r["cls"]]
    cls = r["cls"]
    args = r["args"]
    r = dict(r, variants=list(r["variants"]) + extra_variants(cls, args))
    with warnings.catch_warnings():
        warnings.simplefilter("ignore")
        x = K.construct(spec, args)
        x2 = K.construct(spec, args)
        sx = K.snap(x)
        equal_to_x = []
        _pair(cls, "reflexive", x, x, True, lambda: "recipe args %s" % K.canon(args)[:600])
        if K.snap_cmp(sx, K.snap(x2))[0] == K.SAME:
            _pair(cls, "rebuilt", x, x2, True, lambda: "two builds of args %s" % K.canon(args)[:600])
            equal_to_x.append(("rebuilt", x2))
        else:
            ctx.label("clock-dependent-build")
        if spec.varkw is not None:
            # **kwargs constructors: the same keyword arguments in the opposite order describe the same object
            xr = K.construct(spec, args, reverse_kw=True)
            if K.snap_cmp(sx, K.snap(xr))[0] == K.SAME:
                _pair(cls, "keyword-order", x, xr, True, lambda: "keyword arguments in opposite order; args %s" %
                      K.canon(args)[:600])
                equal_to_x.append(("keyword-order", xr))
                ctx.label("keyword-order")
        xc = copy.deepcopy(x)
        if K.snap_cmp(sx, K.snap(xc))[0] == K.SAME:
            _pair(cls, "deepcopy", x, xc, True, lambda: "args %s" % K.canon(args)[:600])
            equal_to_x.append(("deepcopy", xc))
        else:
            ctx.label("deepcopy-changes-snapshot")
        nontrivial = False
        pargs, nsets = {}, 0
        for p, v in args.items():
            pargs[p], c = K.permute_sets(v)
            nsets += c
        if nsets:
            xp = K.construct(spec, pargs)
            if K.snap_cmp(sx, K.snap(xp))[0] != K.SAME:
                # sets are canonical in the snapshot, so only the clock (MapInformation(date=None)) can do this
                ctx.label("clock-dependent-build")
            else:
                _pair(cls, "permuted", x, xp, True,
                      lambda: "id sets inserted in opposite order; args %s" % K.canon(args)[:800])
                equal_to_x.append(("permuted", xp))
                if any(K.iteration_order_differs(v) for v in args.values()):
                    ctx.label("perm-iteration-order-differs")
                    nontrivial = True
                else:
                    ctx.label("perm-same-iteration-order")
        ys = []
        for var in r["variants"]:
            k = var["k"]
            y = K.construct(spec, dict(args, **var["set"]))
            verdict, where = K.snap_cmp(sx, K.snap(y))

            def detail(k=k, var=var, where=where):
                return "parameter %s: %s -> %s (snapshot differs at %s)" % (
                    k, K.canon({p: args[p] for p in var["set"]})[:500], K.canon(var["set"])[:500], where)
            if verdict == K.DIFFERENT:
                _pair(cls, "perturb:%s.%s" % (cls, k), x, y, False, detail)
                ctx.label("perturb:" + k)
                nontrivial = True
            elif verdict == K.SAME:
                _pair(cls, "same-snapshot:%s" % k, x, y, True, detail)
                equal_to_x.append(("same-snapshot:%s" % k, y))
                ctx.label("normalised-away:" + k)
            else:
                ctx.label("unspecified-zone:" + k)
            ys.append((k, y))
        for p, v in args.items():
            if K.is_default(v):
                ctx.label("default:" + p)
                nontrivial = True
        # hashing last, so that a raising __hash__ does not hide comparison defects of the same class
        hx = hash(x)
        if hash(x) != hx:
            raise Violation("%s-hash-unstable" % cls, "two calls of hash(x) differ")
        for tag, o in equal_to_x:
            ho = hash(o)
            if ho != hx:
                raise Violation("%s-hash-differs-%s" % (cls, tag.split(":")[0]),
                                "x == %s copy but hashes differ (%s); args %s" % (tag, tag, K.canon(args)[:800]))
        for k, y in ys:
            hash(y)
        # an attribute re-assigned through its public setter AFTER the object has been compared and hashed: the object
        # is then the object with that attribute value (whatever key it memoised before is void)
        for k, y in ys[:4]:
            prop = getattr(type(x), k, None)
            if not isinstance(prop, property) or prop.fset is None:
                continue
            try:
                x3 = K.construct(spec, args)
                hash(x3), x3 == x2
                setattr(x3, k, spec.getter(k)(copy.deepcopy(y)))
            except Exception:
                ctx.label("setter-not-usable:" + k)
                continue
            if K.snap_cmp(K.snap(x3), K.snap(y))[0] != K.SAME:
                ctx.label("setter-normalises:" + k)     # validating / converting setter: no obligation
                continue
            _pair(cls, "set-after-compare:%s.%s" % (cls, k), x3, y, True, lambda k=k: "attribute %s assigned after "
                  "==/hash; args %s" % (k, K.canon(args)[:600]))
            if hash(x3) != hash(y):
                raise Violation("%s-hash-stale-after-setter" % cls, "attribute %s assigned after hash(); x == y but "
                                "hash(x) != hash(y)" % k)
            ctx.label("set-after-compare")
        # a nested component edited in place through its own setter AFTER the container has been compared and hashed:
        # the container equals (and hashes like) a never hashed container that received the same edit
        try:
            x4, y4 = K.construct(spec, args), K.construct(spec, args)
            hash(x4), x4 == x2
            what = edit_nested(x4)
            what_y = edit_nested(y4)
        except Exception:
            what = what_y = None
        if what is not None and what == what_y and K.snap_cmp(K.snap(x4), K.snap(y4))[0] == K.SAME:
            _pair(cls, "nested-edit-after-compare:%s" % what, x4, y4, True, lambda: "%s edited in place after ==/hash; "
                  "args %s" % (what, K.canon(args)[:600]))
            if hash(x4) != hash(y4):
                raise Violation("%s-hash-stale-after-nested-edit" % cls, "%s edited in place after hash(): x == y but "
                                "hash(x) != hash(y); args %s" % (what, K.canon(args)[:600]))
            ctx.label("nested-edit-after-compare")
        # a value changed far below 1e-10: the statement leaves open whether the objects are equal, but IF they compare
        # equal their hashes must agree (and the comparison must still be symmetric and consistent with !=)
        nargs, where = nudged(args, r.get("nudge", 0))
        if nargs is not None:
            try:
                z = K.construct(spec, nargs)
            except Exception:
                z = None    # e.g. an interval end moved past the other one
            if z is not None:
                e1, e2, n1, n2 = _cmp(x, z)
                if e1 != e2:
                    raise Violation("%s-asymmetric" % cls, "nudged %s: a==b is %r but b==a is %r" % (where, e1, e2))
                if n1 == e1 or n2 == e2:
                    raise Violation("%s-ne-inconsistent" % cls, "nudged %s: ==:%r/%r !=:%r/%r" % (where, e1, e2, n1, n2))
                if e1 and hash(z) != hx:
                    raise Violation("%s-hash-differs-nearly-equal" % cls, "x == x' (real leaf %s changed by 1e-13 "
                                    "relative) but hash(x) != hash(x'); args %s" % (where, K.canon(args)[:600]))
                ctx.label("nudged-equal" if e1 else "nudged-unequal")
        # equality and hash follow the object through a public mutation: x has been compared and hashed above (any
        # cached key is filled); x moved must equal a freshly built, never compared object moved the same way, and
        # must differ from the unmoved rebuild when the motion changed a public attribute
        try:
            fresh = K.construct(spec, args)
            xm, fm = moved(x), moved(fresh)
        except Exception:
            xm = fm = None   # translate_rotate failing is C05's business
        if xm is not None and fm is not None and K.snap_cmp(K.snap(xm), K.snap(fm))[0] == K.SAME:
            _pair(cls, "moved-after-compare", xm, fm, True, lambda: "translate_rotate%r after ==/hash; args %s" % (
                MOTION, K.canon(args)[:600]))
            if hash(xm) != hash(fm):
                raise Violation("%s-hash-differs-moved" % cls, "x moved == fresh moved but hashes differ")
            if K.snap_cmp(K.snap(xm), K.snap(x2))[0] == K.DIFFERENT:
                _pair(cls, "perturb:%s.moved" % cls, xm, x2, False, lambda: "object moved by %r vs unmoved rebuild" % (
                    MOTION,))
            ctx.label("moved-after-compare")
    if nontrivial:
        ctx.nontrivial()


HEAVY = {"Scenario", "LaneletNetwork", "Lanelet", "DynamicObstacle"}
MEDIUM = {"MBState", "StaticObstacle", "TrajectoryPrediction", "AreaBorder", "Area", "PlanningProblem",
          "PlanningProblemSet", "ScenarioID", "STDState", "SetBasedPrediction", "GoalRegion"}


def _facet(name):
    quick, shards = (400, 4) if name in HEAVY else ((800, 2) if name in MEDIUM else (1200, 1))
    return Facet(name, check_case, strategy=lambda tier, n=name: K.case(n), quick=quick, thorough=10000,
                 shards_quick=shards, shards_thorough=8,
                 rule="%s: recipe over every constructor parameter (incl. left at default) x one perturbation per "
                      "parameter x set re-insertion; non-trivial = obliging perturbation, permutation with different "
                      "iteration order, or a defaulted argument" % name)


FACETS = [_facet(n) for n in K.FACET_CLASSES]
