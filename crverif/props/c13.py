"""C13 - benchmark ids print and parse consistently."""
import re
import warnings

from hypothesis import strategies as st

from commonroad.common.solution import CommonRoadSolutionReader, CommonRoadSolutionWriter
from commonroad.scenario.scenario import ScenarioID

from crverif.core import Facet, Violation
from crverif.gen import solutions as gs

RULE = "own reference printer/regex for the documented id grammar [C-]CCC_Name-M[_K[_B-p1[-p2...]]]; print->parse->print"
ASSUMPTIONS = ["one-element prediction lists are not generated ([3] prints as T-3, which can only parse to 3)",
               "solutions: cost functions admissible for the model; input vectors for KS/ST/MB, PM inputs for PM"]

GRAMMAR = re.compile(r"^(C-)?[A-Z]{3}_[A-Za-z0-9]+-[1-9][0-9]*(_[1-9][0-9]*(_[STPI](-[1-9][0-9]*)+)?)?$")


def check_id(r, ctx):
    sid = gs.build_scenario_id(r)
    exp = gs.reference_id_string(r)
    n = gs.normalised_id_fields(r)
    printed = str(sid)
    if printed != exp:
        raise Violation("print", "str = %r, reference %r for %r" % (printed, exp, r))
    if not GRAMMAR.match(printed):
        raise Violation("grammar", "%r does not match the id grammar" % printed)
    with warnings.catch_warnings():
        warnings.simplefilter("ignore")
        parsed = ScenarioID.from_benchmark_id(printed, r["scenario_version"])
    got = {"cooperative": parsed.cooperative, "country_id": parsed.country_id, "map_name": parsed.map_name,
           "map_id": parsed.map_id, "configuration_id": parsed.configuration_id,
           "obstacle_behavior": parsed.obstacle_behavior, "prediction_id": parsed.prediction_id,
           "scenario_version": parsed.scenario_version}
    for k, v in got.items():
        if v != n[k] or type(v) is not type(n[k]):
            raise Violation("parse-field-" + k, "%r parsed %s=%r, expected %r" % (printed, k, v, n[k]))
    if not (parsed == sid) or not (sid == parsed) or parsed != sid:
        raise Violation("parse-eq", "%r: parsed id is not equal to the original" % printed)
    if str(parsed) != printed:
        raise Violation("reprint", "%r -> %r" % (printed, str(parsed)))
    # what a parse returns belongs to the caller: editing it must not reach a later parse of the same string
    if isinstance(parsed.prediction_id, list):
        parsed.prediction_id.append(77)
        parsed.prediction_id[0] += 1
    parsed.map_name = parsed.map_name + "x"
    with warnings.catch_warnings():
        warnings.simplefilter("ignore")
        again = ScenarioID.from_benchmark_id(printed, r["scenario_version"])
    if str(again) != printed or not (again == sid):
        raise Violation("second-parse-differs", "%r parsed a second time (after the first result was edited) prints %r"
                        % (printed, str(again)))
    optional = int(bool(r["cooperative"])) + int(n["configuration_id"] is not None) + int(
        isinstance(n["prediction_id"], list))
    multi = any(isinstance(v, int) and v >= 10 for v in (n["map_id"], n["configuration_id"])) or (
        isinstance(n["prediction_id"], list) and any(p >= 10 for p in n["prediction_id"]))
    ctx.label("is-map" if n["configuration_id"] is None else (
        "with-prediction" if n["obstacle_behavior"] else "with-configuration"))
    if r["configuration_id"] is None and n["configuration_id"] is not None:
        ctx.label("configuration-defaulted")
    if isinstance(n["prediction_id"], list):
        ctx.label("multi-prediction")
    if optional >= 2 or multi:
        ctx.nontrivial()


def check_solution_id(r, ctx):
    sol = gs.build_solution(r)
    _check_solution_id(r, sol, ctx, "")
    r2 = gs.apply_edit(sol, r)
    if r2 is not None:
        # the solution has been printed and written once; it is then edited through its public attributes
        _check_solution_id(r2, sol, ctx, "after-edit-")
        ctx.label("edited-after-first-use")


def _check_solution_id(r, sol, ctx, tag):
    vehicles = ["%s%d" % (p["model"], p["vtype"]) for p in r["pps"]]
    costs = [p["cost"] for p in r["pps"]]
    sid = gs.reference_id_string(r["scenario_id"])
    exp = "%s:%s:%s:%s" % (vehicles[0] if len(vehicles) == 1 else "[%s]" % ",".join(vehicles),
                           costs[0] if len(costs) == 1 else "[%s]" % ",".join(costs), sid,
                           r["scenario_id"]["scenario_version"])
    if sol.benchmark_id != exp:
        raise Violation(tag + "solution-benchmark-id", "%r, reference %r" % (sol.benchmark_id, exp))
    doc = CommonRoadSolutionWriter(sol).dump(pretty=r["pretty"])
    with warnings.catch_warnings():
        warnings.simplefilter("ignore")
        back = CommonRoadSolutionReader.fromstring(doc)
    if back.benchmark_id != exp:
        raise Violation(tag + "solution-id-roundtrip", "%r -> %r" % (exp, back.benchmark_id))
    got = [(p.vehicle_model.name, p.vehicle_type.value, p.cost_function.name) for p in back.planning_problem_solutions]
    want = [(p["model"], p["vtype"], p["cost"]) for p in r["pps"]]
    if got != want:
        raise Violation(tag + "solution-vehicles-costs", "%r -> %r" % (want, got))
    with warnings.catch_warnings():
        warnings.simplefilter("ignore")
        if not (back.scenario_id == sol.scenario_id) or str(back.scenario_id) != sid:
            raise Violation(tag + "solution-scenario-id", "%r -> %r" % (sid, str(back.scenario_id)))
    if back.scenario_id.scenario_version != r["scenario_id"]["scenario_version"]:
        raise Violation("solution-version", back.scenario_id.scenario_version)
    ctx.label("cooperative" if len(vehicles) > 1 else "single")
    for p in r["pps"]:
        ctx.label("model-" + p["model"])
    ctx.nontrivial([want, sid])


def s_solution(tier):
    return gs.solution_recipe(extreme=False)


FACETS = [
    Facet("scenario-id", check_id, strategy=lambda tier: gs.scenario_id_recipe(), quick=20000, thorough=1000000,
          rule="all ScenarioID field combinations (ISO alpha-3 + ZAM, alnum map names, numbers 1..1e9, behaviour "
               "None/S/T/P/I, prediction None/int/list>=2, every supported version); non-trivial = >=2 optional parts "
               "(cooperative/configuration/prediction list) or multi-digit numbers"),
    Facet("solution-id", check_solution_id, strategy=s_solution, quick=2500, thorough=100000,
          rule="1-4 (model,type,cost) tuples x scenario ids; benchmark id vs reference print, and parse back through "
               "writer->reader; distinct by (tuples, scenario id)"),
]
