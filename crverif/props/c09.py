"""C09 - object ids in a scenario stay unique and the id pool stays exact.

Histories are recipes: a universe of objects with ids from a 14-value pool plus a list of operations that ``check``
interprets step by step in lock-step with an abstract id-pool model (``used: id -> kind``, ``generated``).  The model's
kinds and ids come from the recipe (never from the scenario's private bookkeeping; the only thing read from a library
object is the sign/light reference set a lanelet carries at the moment it is added); the scenario is observed through
its public accessors, the exceptions of add_objects, the return values of generate_object_id and probes on deep copies.
"""
import copy
import warnings

import numpy as np
from hypothesis import strategies as st

from commonroad.geometry.shape import Circle, Rectangle
from commonroad.prediction.prediction import Occupancy, SetBasedPrediction, TrajectoryPrediction
from commonroad.scenario.intersection import Intersection, IntersectionIncomingElement
from commonroad.scenario.lanelet import Lanelet, LaneletNetwork
from commonroad.scenario.obstacle import (DynamicObstacle, EnvironmentObstacle, ObstacleType, PhantomObstacle,
                                          StaticObstacle)
from commonroad.scenario.scenario import Scenario
from commonroad.scenario.state import InitialState, KSState
from commonroad.scenario.traffic_light import (TrafficLight, TrafficLightCycle, TrafficLightCycleElement,
                                               TrafficLightState)
from commonroad.scenario.traffic_sign import TrafficSign, TrafficSignElement, TrafficSignIDZamunda
from commonroad.scenario.trajectory import Trajectory

from crverif.core import Facet, Violation

RULE = ("operation histories run in lock-step with an id-pool model (used: id -> kind incl. incoming elements, "
        "generated); after every step the ids seen through the public accessors equal the model, rejected adds leave "
        "the snapshot unchanged, and a deep-copy probe (add PhantomObstacle(id) for every pool id) succeeds iff the id "
        "is free")
ASSUMPTIONS = [
    "ids are natural numbers from the pool 1..14 (plus ids returned by generate_object_id)",
    "lists handed to add_objects either contain no colliding member or their FIRST member collides (atomicity of a "
    "list add whose later member collides is neither promised nor denied)",
    "removal operations are applied to objects currently contained in the scenario (the very objects that were added)",
    "obstacles carry no lanelet assignment (initial_shape_lanelet_ids / shape_lanelet_assignment None): the "
    "obstacle-lanelet registry belongs to C07",
    "lanelets carry no predecessor/successor/adjacency relations and no stop lines (C10); signs and lights are "
    "referenced only through add_objects(obj, lanelet_ids) with ids of contained lanelets; before a removed lanelet "
    "is added again its references to signs/lights that are no longer contained are dropped through the public "
    "setters (what the library does with dangling references is unspecified)",
    "intersections are added with incoming lanelets taken from the currently contained lanelets; a removed "
    "intersection is re-added only while every lanelet it still references is contained",
    "replace_lanelet_network / add_objects(LaneletNetwork over a non-empty network) with a network that collides with "
    "an obstacle id must raise ValueError; afterwards either 'unchanged' or 'old network erased' is accepted; "
    "add_objects(LaneletNetwork) over a non-empty network without collision may merge or replace; with ids shared "
    "only with the displaced network it may reject (unchanged) or replace; in every case the accessors must show "
    "exactly one of the admissible outcomes and the id pool must be exact for it (probe right after the operation)",
    "erase_lanelet_network is exercised only through replace_lanelet_network (an empty replacement network included)",
]

POOL = list(range(0, 14))   # 0 is a valid id (natural number)
OBST = ("static", "dynamic", "phantom", "env")
NETK = ("lanelet", "sign", "light", "inter", "incoming")


# ======================================================================================================== builders
def mk_lanelet(lid, slot):
    y = 8.0 * slot
    return Lanelet(np.array([[0.0, y + 1.5], [20.0, y + 1.5]]), np.array([[0.0, y], [20.0, y]]),
                   np.array([[0.0, y - 1.5], [20.0, y - 1.5]]), lid)


def mk_sign(sid, lanelet_ids, v=0):
    return TrafficSign(sid, [TrafficSignElement(TrafficSignIDZamunda.MAX_SPEED, ["%d" % (10 + 10 * v)])],
                       set(lanelet_ids), np.array([float(sid), -5.0]), virtual=bool(v % 2))


def mk_light(tid, v=0):
    cyc = TrafficLightCycle([TrafficLightCycleElement(TrafficLightState.RED, 2 + v),
                             TrafficLightCycleElement(TrafficLightState.GREEN, 3)], time_offset=v)
    return TrafficLight(tid, np.array([float(tid), -7.0]), cyc)


def mk_obstacle(kind, oid, v=0):
    pos = np.array([3.0 * (oid % 7), 2.0 * v])
    shape = Rectangle(4.0, 2.0)
    if kind == "static":
        return StaticObstacle(oid, ObstacleType.PARKED_VEHICLE, shape,
                              InitialState(position=pos, orientation=0.0, time_step=0))
    if kind == "dynamic":
        init = InitialState(position=pos, orientation=0.0, velocity=1.0, acceleration=0.0, yaw_rate=0.0,
                            slip_angle=0.0, time_step=0)
        pred = None
        if v % 3 == 1:
            states = [KSState(time_step=t, position=pos + np.array([1.0 * t, 0.0]), orientation=0.0, velocity=1.0,
                              steering_angle=0.0) for t in (1, 2, 3)]
            pred = TrajectoryPrediction(Trajectory(1, states), shape)
        elif v % 3 == 2:
            pred = SetBasedPrediction(1, [Occupancy(1, Rectangle(5.0, 3.0, center=pos)),
                                          Occupancy(2, Rectangle(6.0, 3.0, center=pos))])
        return DynamicObstacle(oid, ObstacleType.CAR, shape, init, pred)
    if kind == "phantom":
        if v % 2:
            return PhantomObstacle(oid, SetBasedPrediction(0, [Occupancy(0, Circle(2.0, center=pos))]))
        return PhantomObstacle(oid)
    if kind == "env":
        return EnvironmentObstacle(oid, ObstacleType.BUILDING, Rectangle(8.0, 6.0, center=pos + np.array([0.0, 40.0])))
    raise AssertionError(kind)


class Item:
    """Harness-side record of one object: its kind and ids come from the recipe, never from the library."""
    __slots__ = ("kind", "ids", "obj", "rs", "rl")

    def __init__(self, kind, ids, obj):
        self.kind = kind
        self.ids = list(ids)     # [main id, *incoming element ids]
        self.obj = obj
        self.rs = set()          # model: sign ids this lanelet references
        self.rl = set()          # model: light ids this lanelet references

    def __repr__(self):
        return "%s%r" % (self.kind, self.ids)


def pick(sorted_ids, sels):
    """distinct members of sorted_ids chosen by selectors (modulo the number of candidates), order of selection."""
    out = []
    if not sorted_ids:
        return out
    for s in sels:
        v = sorted_ids[s % len(sorted_ids)]
        if v not in out:
            out.append(v)
    return out


# ======================================================================================================== observation
def snapshot(sc):
    """Everything id-related that is visible through public accessors."""
    ids, ident = [], []
    for kind, lst in (("static", sc.static_obstacles), ("dynamic", sc.dynamic_obstacles),
                      ("phantom", sc.phantom_obstacle), ("env", sc.environment_obstacle)):
        for o in lst:
            ids.append([kind, int(o.obstacle_id)])
            ident.append([kind, int(o.obstacle_id), id(o)])
    net = sc.lanelet_network
    refs = {}
    for la in net.lanelets:
        ids.append(["lanelet", int(la.lanelet_id)])
        ident.append(["lanelet", int(la.lanelet_id), id(la)])
        refs[int(la.lanelet_id)] = [sorted(int(x) for x in la.traffic_signs), sorted(int(x) for x in la.traffic_lights)]
    for s in net.traffic_signs:
        ids.append(["sign", int(s.traffic_sign_id)])
        ident.append(["sign", int(s.traffic_sign_id), id(s)])
    for t in net.traffic_lights:
        ids.append(["light", int(t.traffic_light_id)])
        ident.append(["light", int(t.traffic_light_id), id(t)])
    for x in net.intersections:
        ids.append(["inter", int(x.intersection_id)])
        ident.append(["inter", int(x.intersection_id), id(x)])
        for inc in x.incomings:
            ids.append(["incoming", int(inc.incoming_id)])
            ident.append(["incoming", int(inc.incoming_id), id(inc)])
    return {"ids": sorted(ids), "ident": sorted(ident), "refs": refs,
            "obstacles": sorted(int(o.obstacle_id) for o in sc.obstacles)}


# ======================================================================================================== the world
class World:
    def __init__(self, r, ctx):
        self.r = r
        self.ctx = ctx
        self.sc = Scenario(dt=0.1)
        self.used = {}           # model: id -> kind
        self.generated = set()   # model: every id generate_object_id returned
        self.contained = {}      # main id -> Item (lanelets, signs, lights, intersections, obstacles)
        self.removed = []        # Items removed by some removal operation and not (yet) added again
        self.uitems = {}         # universe index -> Item
        self.step = -1
        self.trace = []
        self.freed = set()       # ids that were freed at some point
        self.touch = {}          # id -> class of the operation that last released / rejected it (names the bucket)
        self.cur = "?"
        self.suspects = set()    # ids released / rejected by the current step: probed right after it
        self.pending_list_rm = False
        self.pending_reject = False
        self.nt = set()

    # ------------------------------------------------------------------------------------------ bookkeeping
    def where(self):
        return "step %d; executed so far: %s; model used=%r generated=%r" % (
            self.step, self.trace, dict(sorted(self.used.items())), sorted(self.generated))

    def fail(self, kind, detail):
        raise Violation(kind, "%s | %s" % (detail, self.where()))

    def executed(self, what, is_add_ok=False, list_rm=False, rejected=False):
        self.trace.append(what)
        self.ctx.label("op:" + what.split(" ")[0])
        if self.pending_list_rm:
            self.nt.add("list-removal-then-op")
            self.pending_list_rm = False
        if is_add_ok and self.pending_reject:
            self.nt.add("rejected-add-then-add")
            self.pending_reject = False
        if list_rm:
            self.pending_list_rm = True
        if rejected:
            self.pending_reject = True

    def skip(self, why):
        self.ctx.label("skip:" + why)

    def lanelet_ids(self):
        return sorted(i for i, k in self.used.items() if k == "lanelet")

    def ids_of_kinds(self, kinds):
        return sorted(i for i, k in self.used.items() if k in kinds)

    # ------------------------------------------------------------------------------------------ model updates
    def m_add(self, it, lanelet_ids=None):
        for k, i in enumerate(it.ids):
            assert i not in self.used
            self.used[i] = it.kind if k == 0 else "incoming"
            if i in self.freed:
                self.nt.add("remove-then-readd")
        self.contained[it.ids[0]] = it
        self.removed = [x for x in self.removed if x is not it]
        if it.kind == "lanelet":
            # the references the lanelet object carries when it is added are input data of the operation (a lanelet
            # removed earlier keeps whatever references the removal left on it)
            it.rs = {int(x) for x in it.obj.traffic_signs}
            it.rl = {int(x) for x in it.obj.traffic_lights}
        if it.kind in ("sign", "light") and lanelet_ids:
            for l in lanelet_ids:
                la = self.contained.get(l)
                if la is not None and la.kind == "lanelet":
                    (la.rs if it.kind == "sign" else la.rl).add(it.ids[0])

    def m_remove(self, it):
        for i in it.ids:
            del self.used[i]
            self.freed.add(i)
            self.touch[i] = self.cur
            self.suspects.add(i)
        del self.contained[it.ids[0]]
        self.removed.append(it)
        if it.kind in ("sign", "light"):
            for la in self.contained.values():
                if la.kind == "lanelet":
                    (la.rs if it.kind == "sign" else la.rl).discard(it.ids[0])

    def m_remove_lanelets(self, items, referenced):
        if referenced:
            gone = {it.ids[0] for it in items}
            remaining = [x for x in self.contained.values() if x.kind == "lanelet" and x.ids[0] not in gone]
            for attr, kind in (("rs", "sign"), ("rl", "light")):
                hanging = set().union(*[getattr(x, attr) for x in items]) - \
                    set().union(*[getattr(x, attr) for x in remaining])
                for i in sorted(hanging):
                    if self.used.get(i) == kind:
                        self.m_remove(self.contained[i])
                        self.ctx.label("rm:lanelet:hanging-%s-removed" % kind)
        for it in items:
            self.m_remove(it)

    def m_erase_network(self):
        for i in self.ids_of_kinds(("sign", "light", "inter", "lanelet")):
            if i in self.contained:
                self.m_remove(self.contained[i])

    def model_ids(self):
        return sorted([k, i] for i, k in self.used.items())

    # ------------------------------------------------------------------------------------------ invariant
    def verify(self):
        snap = snapshot(self.sc)
        seen = [i for _, i in snap["ids"]]
        dup = sorted({i for i in seen if seen.count(i) > 1})
        if dup:
            self.fail("duplicate-id", "ids %r are reported for more than one contained object: %r" % (dup, snap["ids"]))
        if snap["ids"] != self.model_ids():
            self.fail("ids-differ-from-model", "accessors report %r, model expects %r" % (snap["ids"],
                                                                                          self.model_ids()))
        if snap["obstacles"] != self.ids_of_kinds(OBST):
            self.fail("obstacles-accessor", "Scenario.obstacles reports %r, role accessors %r" % (
                snap["obstacles"], self.ids_of_kinds(OBST)))
        exp_ident = []
        for it in self.contained.values():
            exp_ident.append([it.kind, it.ids[0], id(it.obj)])
            if it.kind == "inter":
                for inc in it.obj.incomings:
                    exp_ident.append(["incoming", int(inc.incoming_id), id(inc)])
        if sorted(exp_ident) != snap["ident"]:
            self.fail("contained-object-replaced", "the contained objects are not the objects that were added: %r vs %r"
                      % (snap["ident"], sorted(exp_ident)))
        if self.r.get("keep_dangling"):
            # what the library does with dangling references is not specified: the model follows the references the
            # lanelets actually carry (they are input of the hanging-member rule, not part of the id pool)
            for i, it in self.contained.items():
                if it.kind == "lanelet":
                    it.rs, it.rl = set(snap["refs"][i][0]), set(snap["refs"][i][1])
        exp_refs = {i: [sorted(it.rs), sorted(it.rl)] for i, it in self.contained.items() if it.kind == "lanelet"}
        if exp_refs != snap["refs"]:
            self.fail("lanelet-references-differ-from-model", "lanelet -> [signs, lights]: library %r, model %r" % (
                snap["refs"], exp_refs))
        for i, it in self.contained.items():
            if it.kind in OBST and self.sc.obstacle_by_id(i) is not it.obj:
                self.fail("obstacle-by-id", "obstacle_by_id(%d) is not the added object" % i)
        return snap

    def accepts(self, cp, i):
        try:
            cp.add_objects(PhantomObstacle(i))
            return True
        except ValueError:
            return False

    def origin(self, i):
        return self.touch.get(i, "never-used")

    def probe(self, why):
        """Public-API test of the reservation set: a copy of the scenario must accept a new object with id i iff no
        contained object uses i. The bucket names the operation class that last released / rejected the id."""
        cp = copy.deepcopy(self.sc)
        cand = set(POOL) | set(self.used) | self.generated
        cand.add(max(cand) + 1)
        self.ctx.label("probe")
        for i in sorted(cand):
            ok = self.accepts(cp, i)
            if ok and i in self.used:
                self.fail("used-id-accepted:last-" + self.origin(i),
                          "%s probe: a copy of the scenario accepts a new object with id %d although a %s with this "
                          "id is contained" % (why, i, self.used[i]))
            if not ok and i not in self.used:
                self.fail("leaked-id:after-" + self.origin(i),
                          "%s probe: a copy of the scenario rejects a new object with id %d although no contained "
                          "object uses it (reservation leaked by: %s)" % (why, i, self.origin(i)))

    def probe_suspects(self):
        """Targeted probe right after a step that released ids or rejected an add: every such id that no contained
        object uses must be accepted by a copy of the scenario (attributes a leak to the operation that caused it)."""
        sus = sorted(i for i in self.suspects if i not in self.used)
        self.suspects = set()
        if not sus:
            return
        cp = copy.deepcopy(self.sc)
        self.ctx.label("probe-after-step")
        for i in sus:
            if not self.accepts(cp, i):
                self.fail("leaked-id:after-" + self.origin(i),
                          "a copy of the scenario rejects a new object with id %d right after the step that released / "
                          "rejected it (%s) although no contained object uses it" % (i, self.origin(i)))

    def rejected_ids(self, ids, kind):
        for i in ids:
            if i not in self.used:
                self.suspects.add(i)
                self.touch[i] = "rejected-%s:%s" % ("add" if self.cur in ("add", "readd", "add_list", "gen")
                                                    else self.cur, kind)

    def fail_free_rejected(self, what, ids, err):
        cp = copy.deepcopy(self.sc)
        leaked = [i for i in sorted(ids) if i not in self.used and not self.accepts(cp, i)]
        origins = sorted({"after-" + self.touch[i] for i in leaked if i in self.touch}) or ["during-" + self.cur]
        self.fail("leaked-id:" + origins[0],
                  "%s: all ids are free but add_objects raised %r; ids %r are reserved although no contained object "
                  "uses them (leaked by: %r)" % (what, err, leaked, origins))

    # ------------------------------------------------------------------------------------------ adds
    def try_add(self, what, arg, lanelet_ids, items, collide, use_kw):
        pre = snapshot(self.sc)
        err = None
        try:
            if use_kw:
                self.sc.add_objects(arg, lanelet_ids)
            else:
                self.sc.add_objects(arg)
        except ValueError as e:
            err = e
        if collide:
            if err is None:
                self.trace.append(what)
                self.fail("add-used-id-accepted", "%s: ids %r are in use but add_objects did not raise ValueError" % (
                    what, sorted(collide)))
            post = snapshot(self.sc)
            self.executed(what + " -> rejected", rejected=True)
            self.ctx.label("add-rejected")
            if arg.__class__ is LaneletNetwork:
                self.rejected_ids([i for it in items for i in it.ids], "network")
            else:
                self.rejected_ids(items[0].ids, items[0].kind)   # of a list only the first member was attempted
            if post != pre:
                self.fail("rejected-add-changed-scenario", "%s raised %r but the scenario changed: before %r after %r"
                          % (what, err, pre, post))
            return False
        if err is not None:
            self.trace.append(what)
            self.fail_free_rejected(what, [i for it in items for i in it.ids], err)
        for it in items:
            self.m_add(it, lanelet_ids)
        self.executed(what, is_add_ok=True)
        self.ctx.label("add-accepted")
        return True

    def collisions(self, it):
        return {i for i in it.ids if i in self.used}

    def refs_for(self, sels):
        return set(pick(self.lanelet_ids(), sels))

    def fresh_universe_item(self, u, op):
        """(Re)build the universe object u; None if its precondition does not hold."""
        e = self.r["uni"][u]
        k = e["k"]
        if k == "lanelet":
            return Item("lanelet", [e["id"]], mk_lanelet(e["id"], u))
        if k in OBST:
            return Item(k, [e["id"]], mk_obstacle(k, e["id"], e.get("v", 0)))
        if k == "sign":
            return Item("sign", [e["id"]], mk_sign(e["id"], self.refs_for(op.get("refs", [])), e.get("v", 0)))
        if k == "light":
            return Item("light", [e["id"]], mk_light(e["id"], e.get("v", 0)))
        if k == "inter":
            lids = self.lanelet_ids()
            if not lids:
                return None
            incs = []
            for inc in e["inc"]:
                chosen = pick(lids, inc["sel"]) or [lids[0]]
                incs.append(IntersectionIncomingElement(inc["id"], set(chosen), set(), set(pick(lids, inc["sel"][1:])),
                                                        set()))
            obj = Intersection(e["id"], incs, set(pick(lids, e.get("cross", []))))
            return Item("inter", [e["id"]] + [inc["id"] for inc in e["inc"]], obj)
        raise AssertionError(k)

    def universe_item(self, u, op):
        """The object behind universe index u for an add: the contained one (-> self-collision), the same lanelet /
        obstacle object again, or a freshly built sign / light / intersection."""
        it = self.uitems.get(u)
        if it is not None and self.contained.get(it.ids[0]) is it:
            return it
        if it is not None and it.kind in ("lanelet",) + OBST:
            return it
        it = self.fresh_universe_item(u, op)
        if it is not None:
            self.uitems[u] = it
        return it

    def op_add(self, op):
        u = op["u"] % len(self.r["uni"])
        it = self.universe_item(u, op)
        if it is None:
            return self.skip("intersection-without-lanelets")
        self.add_single("add u%d %r" % (u, it), it, op)

    def prepare(self, it):
        """A lanelet that is added again must not reference signs / lights that are not contained (what the library
        does with such dangling references is not specified): they are dropped through the public setters."""
        if it.kind != "lanelet" or self.contained.get(it.ids[0]) is it:
            return
        if self.r.get("keep_dangling"):
            if any(self.used.get(x) != "sign" for x in it.obj.traffic_signs) or any(
                    self.used.get(x) != "light" for x in it.obj.traffic_lights):
                self.ctx.label("lanelet-added-with-dangling-references")
            return
        signs = {x for x in it.obj.traffic_signs if self.used.get(x) == "sign"}
        lights = {x for x in it.obj.traffic_lights if self.used.get(x) == "light"}
        if signs != it.obj.traffic_signs or lights != it.obj.traffic_lights:
            self.ctx.label("lanelet-dangling-references-dropped")
            it.obj.traffic_signs = signs
            it.obj.traffic_lights = lights

    def add_single(self, what, it, op):
        self.prepare(it)
        lanelet_ids = None
        use_kw = False
        if it.kind in ("sign", "light"):
            lanelet_ids = self.refs_for(op.get("refs", []))
            use_kw = bool(lanelet_ids) or bool(op.get("kw"))
            if not use_kw:
                lanelet_ids = None
            what += " lanelet_ids=%r" % (None if lanelet_ids is None else sorted(lanelet_ids))
        elif op.get("kw"):
            use_kw, lanelet_ids = True, self.refs_for(op.get("refs", []))
        contained_self = self.contained.get(it.ids[0]) is it
        self.try_add(what, it.obj, lanelet_ids, [it], self.collisions(it), use_kw)
        self.ctx.label("add:" + it.kind + (":self" if contained_self else ""))

    def readd_ok(self, it):
        if it.kind != "inter":
            return True
        lids = set(self.lanelet_ids())
        refd = set(it.obj.crossings)
        for inc in it.obj.incomings:
            refd |= set(inc.incoming_lanelets) | set(inc.successors_left) | set(inc.successors_right) | \
                set(inc.successors_straight)
        return refd <= lids

    def op_readd(self, op):
        if not self.removed:
            self.ctx.label("readd-falls-back-to-add")
            return self.op_add(op)
        it = self.removed[-1 - (op["i"] % len(self.removed))]
        if not self.readd_ok(it):
            return self.skip("readd-intersection-dangling")
        self.ctx.label("readd:" + it.kind)
        self.add_single("readd %r" % it, it, op)

    def op_add_list(self, op):
        n = len(self.r["uni"])
        cands = []
        for u in op["us"]:
            it = self.universe_item(u % n, op)
            if it is not None and all(it is not x for x in cands):
                cands.append(it)
        if not cands:
            return self.skip("add-list-empty")
        first_col = self.collisions(cands[0])
        if first_col:
            members = cands      # the first member collides: the later ones are arbitrary
        else:
            members, taken = [], set()
            for it in cands:
                if self.collisions(it) or (set(it.ids) & taken):
                    break        # a later member collides: the list is cut before it (narrowing)
                members.append(it)
                taken |= set(it.ids)
        for it in members:
            self.prepare(it)
        lanelet_ids = self.refs_for(op.get("refs", [])) if op.get("kw") or op.get("refs") else None
        what = "add_list %r lanelet_ids=%r" % (members, None if lanelet_ids is None else sorted(lanelet_ids))
        self.ctx.label("add-list:first-collides" if first_col else "add-list:len%d" % len(members))
        self.try_add(what, [m.obj for m in members], lanelet_ids, members, first_col, lanelet_ids is not None)

    # ------------------------------------------------------------------------------------------ networks
    def build_net(self, n):
        nr = self.r["nets"][n]
        net = LaneletNetwork()
        items = []
        lan = []
        for j, lid in enumerate(nr["ll"]):
            it = Item("lanelet", [lid], mk_lanelet(lid, 50 + 10 * n + j))
            net.add_lanelet(it.obj)
            lan.append(it)
            items.append(it)
        for kind, key in (("sign", "signs"), ("light", "lights")):
            for e in nr[key]:
                refd = [lan[i % len(lan)] for i in e["refs"]] if lan else []
                lids = {x.ids[0] for x in refd}
                if kind == "sign":
                    obj = mk_sign(e["id"], lids)
                    net.add_traffic_sign(obj, lids)
                else:
                    obj = mk_light(e["id"])
                    net.add_traffic_light(obj, lids)
                for x in refd:
                    (x.rs if kind == "sign" else x.rl).add(e["id"])
                items.append(Item(kind, [e["id"]], obj))
        for e in nr["inters"]:
            if not lan:
                continue
            incs = [IntersectionIncomingElement(inc["id"], {lan[i % len(lan)].ids[0] for i in (inc["ll"] or [0])},
                                                set(), set(), set()) for inc in e["inc"]]
            obj = Intersection(e["id"], incs)
            net.add_intersection(obj)
            items.append(Item("inter", [e["id"]] + [inc["id"] for inc in e["inc"]], obj))
        return net, items

    def net_ids(self, items):
        return {i for it in items for i in it.ids}

    def variant_ids(self, drop_network, extra_items):
        ids = [[k, i] for i, k in self.used.items() if not (drop_network and k in NETK)]
        for it in extra_items:
            ids += [[it.kind if j == 0 else "incoming", i] for j, i in enumerate(it.ids)]
        return sorted(ids)

    def op_net(self, op):
        """add_objects(LaneletNetwork) / replace_lanelet_network.  Where the documentation leaves the outcome open the
        admissible outcomes are listed as (raises?, name, expected accessor ids, model update); the id pool has to be
        exact (probe) whichever of them the library chose."""
        n = op["n"] % len(self.r["nets"])
        old = self.ids_of_kinds(NETK)
        replace = op["op"] == "replace_net"
        if not replace and old and not op.get("over"):
            replace = True
            self.ctx.label("add-net-on-nonempty-network-becomes-replace")
        net, items = self.build_net(n)
        new_ids = self.net_ids(items)
        col_obst = new_ids & set(self.ids_of_kinds(OBST))
        all_ids = [i for it in items for i in it.ids]
        internal = {i for i in all_ids if all_ids.count(i) > 1}
        if internal:
            # two elements of the network share an id (the network keeps a table per kind): accepting it would put two
            # contained objects with one id into the scenario - treated like a collision under every reading
            col_obst = col_obst | internal
            self.ctx.label("network-with-internal-id-collision")
        col_old = new_ids & set(old)
        what = "%s n%d %r" % ("replace_net" if replace else "add_net", n, items)
        self.cur = "replace_net" if replace else ("add_net_over" if old else "add_net")
        if not replace and not old:
            self.ctx.label("add-net:" + ("collides" if col_obst else "free"))
            self.try_add(what, net, None, items, col_obst, False)
            return

        def erase_then_add():
            self.m_erase_network()
            for it in items:
                self.m_add(it)

        def merge():
            for it in items:
                self.m_add(it)

        unchanged = (True, "rejected-unchanged", self.variant_ids(False, []), lambda: None)
        erased = (True, "rejected-old-network-erased", self.variant_ids(True, []), self.m_erase_network)
        replaced = (False, "replaced", self.variant_ids(True, items), erase_then_add)
        merged = (False, "merged", self.variant_ids(False, items), merge)
        if col_obst:
            # an id of the new network is used by an obstacle: ValueError under every reading
            admissible, cls = [unchanged, erased], "collides-with-obstacle"
        elif replace:
            admissible, cls = [replaced], "free"
        elif col_old:
            # add_objects over a non-empty network, ids shared with the displaced network only: "merge" must reject,
            # "replace" must accept
            admissible, cls = [unchanged, replaced], "collides-with-old-network"
        else:
            admissible, cls = [replaced, merged], "free"
        self.ctx.label(("replace-net:" if replace else "add-net-over:") + cls)
        err = None
        try:
            if replace:
                self.sc.replace_lanelet_network(net)
            else:
                self.sc.add_objects(net)
        except ValueError as e:
            err = e
        got = snapshot(self.sc)["ids"]
        self.trace.append(what + (" -> raised" if err is not None else ""))
        if all(a[0] for a in admissible) and err is None:
            self.fail("add-used-id-accepted", "%s: ids %r are used by obstacles but no ValueError was raised" % (
                what, sorted(col_obst)))
        if not any(a[0] for a in admissible) and err is not None:
            self.fail_free_rejected(what, new_ids, err)
        for raises, name, ids, update in admissible:
            if raises == (err is not None) and ids == got:
                self.trace.pop()
                update()
                if raises:
                    self.rejected_ids(new_ids, "network")
                self.executed(what + " -> " + name, is_add_ok=not raises, rejected=raises)
                self.ctx.label("outcome:" + name)
                break
        else:
            self.fail("network-op-inconsistent", "%s: %s and the accessors report %r; admissible: %r" % (
                what, "raised %r" % err if err is not None else "returned", got, [a[:3] for a in admissible]))
        self.verify()
        self.probe("after " + what.split(" ")[0])

    # ------------------------------------------------------------------------------------------ removals
    def op_rm(self, op):
        # the first kind of the op's preference order of which an object is contained
        kind, cand = None, []
        for k in op["kinds"]:
            cand = self.ids_of_kinds(OBST if k == "obstacle" else (k,))
            if cand:
                kind = k
                break
        if kind is None:
            return self.skip("rm-nothing-contained")
        chosen = [self.contained[i] for i in pick(cand, op["sel"])]
        as_list = bool(op["list"])
        if not as_list:
            chosen = chosen[:1] or [self.contained[cand[0]]]
        arg = [c.obj for c in chosen] if as_list else chosen[0].obj
        form = "list%d" % len(chosen) if as_list else "single"
        self.cur = "rm_%s:%s" % (kind, "list" if as_list else "single")
        what = "rm_%s %s %r" % (kind, form, chosen)
        try:
            if kind == "obstacle":
                self.sc.remove_obstacle(arg)
            elif kind == "lanelet":
                what += " referenced_elements=%r" % bool(op["ref"])
                if op["ref"] and op.get("default_ref"):
                    self.sc.remove_lanelet(arg)
                else:
                    self.sc.remove_lanelet(arg, referenced_elements=bool(op["ref"]))
            elif kind == "sign":
                self.sc.remove_traffic_sign(arg)
            elif kind == "light":
                self.sc.remove_traffic_light(arg)
            elif kind == "inter":
                self.sc.remove_intersection(arg)
            else:
                raise AssertionError(kind)
        except Exception as e:  # removal of a contained object never raises
            self.trace.append(what)
            self.fail("removal-raised:%s:%s:%s" % (kind, "list" if as_list else "single", type(e).__name__),
                      "%s raised %r" % (what, e))
        if kind == "lanelet":
            self.m_remove_lanelets(chosen, bool(op["ref"]))
        else:
            for it in chosen:
                self.m_remove(it)
        self.executed(what, list_rm=as_list and bool(chosen))
        self.ctx.label("rm:%s:%s" % (kind, form))

    # ------------------------------------------------------------------------------------------ generate_object_id
    def op_gen(self, op):
        g = self.sc.generate_object_id()
        what = "gen -> %r" % (g,)
        if isinstance(g, bool) or not isinstance(g, (int, np.integer)):
            self.trace.append(what)
            self.fail("generated-id-type", "generate_object_id returned %r" % (g,))
        g = int(g)
        if g in self.used:
            self.trace.append(what)
            self.fail("generated-id-in-use", "generate_object_id returned %d which is the id of a contained %s" % (
                g, self.used[g]))
        if g in self.generated:
            self.trace.append(what)
            self.fail("generated-id-repeated", "generate_object_id returned %d a second time" % g)
        self.generated.add(g)
        self.executed(what)
        use = op.get("use")
        if use:
            if use == "lanelet":
                it = Item("lanelet", [g], mk_lanelet(g, 100 + g))
            elif use == "sign":
                it = Item("sign", [g], mk_sign(g, set()))
            elif use == "light":
                it = Item("light", [g], mk_light(g))
            else:
                it = Item(use, [g], mk_obstacle(use, g, op.get("v", 0)))
            self.add_single("add generated %r" % it, it, {})

    def apply(self, op):
        name = op["op"]
        self.cur = name
        if name == "add":
            self.op_add(op)
        elif name == "readd":
            self.op_readd(op)
        elif name == "add_list":
            self.op_add_list(op)
        elif name in ("add_net", "replace_net"):
            self.op_net(op)
        elif name == "rm":
            self.op_rm(op)
        elif name == "gen":
            self.op_gen(op)
        else:
            raise AssertionError(name)


def check_history(r, ctx):
    with warnings.catch_warnings():
        warnings.simplefilter("ignore")
        w = World(r, ctx)
        k = max(1, int(r.get("probe", 5)))
        for step, op in enumerate(r["ops"]):
            w.step = step
            w.apply(op)
            w.verify()
            w.probe_suspects()
            if (step + 1) % k == 0:
                w.probe("periodic")
        w.step = len(r["ops"])
        w.probe("final")
    n_exec = len(w.trace)
    ctx.label("executed-ops-%s" % ("0-4" if n_exec < 5 else "5-14" if n_exec < 15 else "15-29" if n_exec < 30
                                   else "30+"))
    for t in sorted(w.nt):
        ctx.label("nt:" + t)
    if w.nt:
        ctx.nontrivial(key=w.trace)


# ======================================================================================================== strategies
PID = st.sampled_from(POOL)
IDX = st.integers(0, 39)
SELS = st.lists(st.integers(0, 7), min_size=0, max_size=3)
SELS1 = st.lists(st.integers(0, 7), min_size=1, max_size=3)


def u_obstacle(kinds=OBST):
    return st.fixed_dictionaries({"k": st.sampled_from(list(kinds)), "id": PID, "v": st.integers(0, 2)})


def u_lanelet():
    return st.fixed_dictionaries({"k": st.just("lanelet"), "id": PID})


def u_sign():
    return st.fixed_dictionaries({"k": st.just("sign"), "id": PID, "v": st.integers(0, 1)})


def u_light():
    return st.fixed_dictionaries({"k": st.just("light"), "id": PID, "v": st.integers(0, 1)})


def u_inter():
    return st.tuples(st.lists(PID, min_size=2, max_size=4, unique=True), st.lists(SELS1, min_size=3, max_size=3),
                     SELS).map(lambda t: {"k": "inter", "id": t[0][0], "cross": t[2],
                                          "inc": [{"id": i, "sel": t[1][j]} for j, i in enumerate(t[0][1:])]})


def net_recipe():
    def build(t):
        perm, nl, ns, nt, ni, ninc, refs = t[:7]
        perm = list(perm)
        take = lambda k: [perm.pop() for _ in range(k)]  # noqa: E731
        ll = take(nl)
        signs = [{"id": i, "refs": refs[j]} for j, i in enumerate(take(ns))]
        lights = [{"id": i, "refs": refs[2 + j]} for j, i in enumerate(take(nt))]
        inters = []
        if nl and ni:
            iid = take(1)[0]
            inters.append({"id": iid, "inc": [{"id": i, "ll": refs[4 + j]} for j, i in enumerate(take(ninc))]})
        net = {"ll": ll, "signs": signs, "lights": lights, "inters": inters}
        if t[7] and ll and (signs or lights or inters):
            # cross-kind id collision inside the network (rare): a sign / light / intersection reuses a lanelet id
            victim = (signs or lights or inters)[0]
            victim["id"] = ll[t[7] % len(ll)]
        return net
    return st.tuples(st.permutations(POOL), st.integers(0, 3), st.integers(0, 2), st.integers(0, 2), st.integers(0, 1),
                     st.integers(1, 2), st.lists(SELS, min_size=6, max_size=6),
                     st.sampled_from([0, 0, 0, 0, 0, 1, 2])).map(lambda t: build(t))


def op_add():
    return st.fixed_dictionaries({"op": st.just("add"), "u": IDX, "refs": SELS, "kw": st.booleans()})


def op_readd():
    return st.fixed_dictionaries({"op": st.just("readd"), "i": st.integers(0, 4), "u": IDX, "refs": SELS,
                                  "kw": st.booleans()})


def op_add_list():
    return st.fixed_dictionaries({"op": st.just("add_list"), "us": st.lists(IDX, min_size=1, max_size=4),
                                  "refs": SELS, "kw": st.booleans()})


def op_rm(kinds):
    kinds = sorted(set(kinds))
    return st.fixed_dictionaries({"op": st.just("rm"), "kinds": st.permutations(kinds),
                                  "sel": st.one_of(SELS1, SELS1, SELS1, SELS),
                                  "list": st.booleans(), "ref": st.booleans(), "default_ref": st.booleans()})


def op_gen(uses):
    return st.fixed_dictionaries({"op": st.just("gen"), "use": st.sampled_from([None] + list(uses)),
                                  "v": st.integers(0, 2)})


def op_net(name, over=False):
    return st.fixed_dictionaries({"op": st.just(name), "n": st.integers(0, 3), "over": st.just(over)})


def long_list(elem, max_size, chunks=4):
    """Lists of 1..max_size elements with a mean length near max_size/2 that still shrink by plain deletion
    (hypothesis' own lists() of that size range average ~6 elements): concatenated chunks; two of three draws force
    a full first chunk, shrinking falls back to the unconstrained alternative."""
    per = max(1, max_size // chunks)

    def cat(first_min):
        parts = [st.lists(elem, min_size=first_min if i == 0 else 0, max_size=per) for i in range(chunks)]
        return st.tuples(*parts).map(lambda t: [x for part in t for x in part])
    return st.one_of(cat(1), cat(per), cat(per))


def history(uni_parts, op_parts, max_ops, n_uni=(1, 40), nets=False):
    return st.fixed_dictionaries({
        "uni": long_list(st.one_of(*uni_parts), n_uni[1]),
        "nets": st.lists(net_recipe(), min_size=1, max_size=4) if nets else st.just([]),
        "ops": long_list(st.one_of(*op_parts), max_ops),
        "probe": st.integers(3, 8),
        # a removed lanelet keeps the sign / light references it had; in a quarter of the histories they are NOT dropped
        # before it is added again (they may meanwhile name ids that are free or belong to other objects)
        "keep_dangling": st.sampled_from([False, False, False, True]),
    })


def max_ops(tier):
    return 40 if tier == "quick" else 80


def s_obstacles(tier):
    return history([u_obstacle()], [op_add(), op_add(), op_add_list(), op_readd(), op_rm(["obstacle"]),
                                    op_rm(["obstacle"]), op_gen(OBST)], max_ops(tier))


def s_elements(tier):
    return history([u_lanelet(), u_lanelet(), u_sign(), u_light(), u_obstacle()],
                   [op_add(), op_add(), op_add_list(), op_readd(), op_rm(["lanelet", "sign", "light", "obstacle"]),
                    op_rm(["lanelet", "sign", "light"]), op_gen(["lanelet", "sign", "light"])], max_ops(tier))


def s_intersections(tier):
    return history([u_lanelet(), u_lanelet(), u_inter(), u_inter(), u_obstacle()],
                   [op_add(), op_add(), op_add_list(), op_readd(), op_rm(["inter", "inter", "lanelet", "obstacle"]),
                    op_rm(["inter", "lanelet"])], max_ops(tier))


def s_networks(tier):
    return history([u_lanelet(), u_sign(), u_light(), u_inter(), u_obstacle()],
                   [op_add(), op_readd(), op_net("add_net"), op_net("replace_net"), op_net("replace_net"),
                    op_rm(["lanelet", "sign", "light", "inter", "obstacle"])], max_ops(tier), n_uni=(1, 30), nets=True)


def s_net_over(tier):
    return history([u_lanelet(), u_sign(), u_light(), u_obstacle()],
                   [op_add(), op_readd(), op_net("add_net", True), op_net("add_net", True),
                    op_rm(["lanelet", "sign", "light", "inter", "obstacle"])], max_ops(tier), n_uni=(1, 16), nets=True)


def s_mixed(tier):
    return history([u_lanelet(), u_lanelet(), u_sign(), u_light(), u_inter(), u_obstacle(), u_obstacle()],
                   [op_add(), op_add(), op_add(), op_add_list(), op_readd(), op_readd(),
                    op_rm(["lanelet", "sign", "light", "inter", "obstacle"]),
                    op_rm(["lanelet", "sign", "light", "inter", "obstacle"]),
                    op_net("add_net"), op_net("replace_net"), op_gen(list(OBST) + ["lanelet", "sign", "light"])],
                   max_ops(tier), nets=True)


NT = ("non-trivial = the executed history contains a removal followed by a successful add of the same id, or a "
      "list-form removal followed by another operation, or a rejected add followed by an accepted add")

FACETS = [
    Facet("obstacles", check_history, strategy=s_obstacles, quick=1500, thorough=40000,
          rule="obstacles of the four roles only: add (single/list), remove_obstacle (single/list), re-add, "
               "generate_object_id (+ add of an object with the generated id); " + NT),
    Facet("network-elements", check_history, strategy=s_elements, quick=2000, thorough=60000,
          rule="lanelets, signs, lights (+ obstacles): add with lanelet_ids, remove_lanelet (single/list, referenced "
               "elements on/off), remove_traffic_sign / remove_traffic_light (single/list), re-add; " + NT),
    Facet("intersections", check_history, strategy=s_intersections, quick=2000, thorough=60000,
          rule="lanelets and intersections with 1-3 incoming elements whose ids collide with everything else: add, "
               "remove_intersection (single/list), re-add; " + NT),
    Facet("networks", check_history, strategy=s_networks, quick=1500, thorough=40000,
          rule="add_objects(LaneletNetwork) into an empty network and replace_lanelet_network with networks of 0-3 "
               "lanelets, signs, lights, an intersection, interleaved with single adds/removals; " + NT),
    Facet("network-over-nonempty", check_history, strategy=s_net_over, quick=1000, thorough=30000,
          rule="add_objects(LaneletNetwork) while the scenario's network is not empty (merge or replace accepted, the "
               "id pool must stay exact); " + NT),
    Facet("mixed", check_history, strategy=s_mixed, quick=3000, thorough=100000,
          rule="all operations of the property over a universe of up to 40 objects; " + NT),
]
