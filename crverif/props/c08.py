"""C08 - Goal-region membership is decided correctly (GoalRegion.is_reached, PlanningProblem.goal_reached)."""
import copy
import math
import pickle
from fractions import Fraction

import numpy as np
from hypothesis import strategies as st

from commonroad.common.util import AngleInterval, Interval
from commonroad.geometry.shape import ShapeGroup
from commonroad.planning.goal import GoalRegion
from commonroad.planning.planning_problem import PlanningProblem
from commonroad.scenario import state as S
from commonroad.scenario.lanelet import Lanelet
from commonroad.scenario.trajectory import Trajectory

from crverif.core import Facet, Violation
from crverif.gen import geometry as G
from crverif.gen import goals as gg
from crverif.oracle import geom

RULE = ("own three-valued evaluation of the specification (True / False / don't-care band): time via Fraction, position "
        "via own point-in-set with boundary distance, orientation via arc membership, velocity via Fraction; point-mass "
        "states via hypot / atan2; region = OR over goal states of AND over constrained attributes")
ASSUMPTIONS = [
    "MBState excluded (carries both velocity_y and orientation; the statement defines the speed/heading conversion for "
    "point-mass states only)",
    "query states carry every attribute that any goal state constrains (otherwise the documented ValueError)",
    "goal states pass GoalRegion._validate_goal_state: Interval time step (mandatory), Shape position, AngleInterval "
    "orientation, Interval velocity; goal-state classes CustomState, InitialState, KSState, STState, ExtendedPMState, "
    "PMState (the last only without orientation)",
    "point-mass query states = PMState and CustomState with (velocity, velocity_y) and no orientation attribute; they "
    "carry both velocity components or neither; ExtendedPMState and custom states with an orientation attribute are "
    "kinematic (velocity and orientation are compared as stored)",
    "time steps are non-negative ints; trajectories have consecutive time steps, one class and one attribute set",
    "position: a point within 1e-9*(1+scale) of the boundary is a don't-care, except points that lie exactly "
    "(rational arithmetic) on an edge of a raw-vertex polygon / lanelet polygon / axis-parallel rectangle or on an axis "
    "point of a circle, which must be accepted (boundary included)",
    "orientation: theta with a <= theta <= b exactly must be accepted; otherwise a 1e-9 band at the arc ends",
    "point-mass speed: band 1e-9*(1+v) at the interval ends unless one component is zero (then |v| is exact); "
    "point-mass heading: band 1e-9 at the arc ends; zero speed has heading atan2(0, 0) = 0, with a negative zero "
    "component it is a don't-care",
    "lanelet goals are built like the file reader does (ShapeGroup of Lanelet.polygon + lanelets_of_goal_position); the "
    "reference region is the ring right boundary ++ reversed left boundary of the recipe",
    "goal_reached: any index of a reaching state is accepted (the statement says 'a state', the docstring 'first', the "
    "code returns the last)",
]
TWO_PI = 2 * math.pi
BAND = 1e-9

KIN_CLASSES, PM_CLASSES = gg.KIN_CLASSES, gg.PM_CLASSES
goal_geo, geo_extent = gg.goal_geo, gg.geo_extent


def F(x):
    return Fraction(x)


# ====================================================================================================== builders
SETTERS = [False]


def _mark_setters(sh):
    if sh["k"] == "group":
        return dict(sh, m=[_mark_setters(m) for m in sh["m"]])
    return dict(sh, setters=True)


def build_goal_position(p, index, lanelet_map):
    if p["k"] == "lanelets":
        polys = []
        for ll, lid in zip(p["ll"], p["ids"]):
            lanelet = Lanelet(np.array(ll["left"], dtype=float), np.array(ll["center"], dtype=float),
                              np.array(ll["right"], dtype=float), lid)
            polys.append(lanelet.polygon)
        lanelet_map[index] = list(p["ids"])
        return ShapeGroup(polys)
    return G.build_shape(_mark_setters(p) if SETTERS[0] else p)


def build_goal_state(gs, index, lanelet_map):
    kw = {}
    if gs["pos"] is not None:
        kw["position"] = build_goal_position(gs["pos"], index, lanelet_map)
    if gs["ori"] is not None:
        kw["orientation"] = AngleInterval(gs["ori"][0], gs["ori"][1])
    if gs["vel"] is not None:
        kw["velocity"] = Interval(gs["vel"][0], gs["vel"][1])
    t = Interval(gs["t"][0], gs["t"][1])
    if gs["cls"] == "CustomState":
        return S.CustomState(time_step=t, **kw)
    return getattr(S, gs["cls"])(time_step=t, **kw)


def _through_xml(gs, region):
    import os
    import shutil
    import tempfile
    from commonroad.common.file_reader import CommonRoadFileReader
    from commonroad.common.file_writer import CommonRoadFileWriter, OverwriteExistingFile
    from commonroad.planning.planning_problem import PlanningProblemSet
    from commonroad.scenario.lanelet import LaneletNetwork
    from commonroad.scenario.scenario import Scenario, Tag
    lanelets = [Lanelet(np.array(ll["left"], dtype=float), np.array(ll["center"], dtype=float),
                        np.array(ll["right"], dtype=float), lid) for ll, lid in zip(gs["pos"]["ll"], gs["pos"]["ids"])]
    sc = Scenario(0.1)
    sc.add_objects(LaneletNetwork.create_from_lanelet_list(lanelets, cleanup_ids=False))
    init = S.InitialState(**dict(INITIAL, position=np.array(INITIAL["position"])))
    pps = PlanningProblemSet([PlanningProblem(1, init, region)])
    d = tempfile.mkdtemp(prefix="crverif-c08-")
    try:
        path = os.path.join(d, "s.xml")
        import contextlib
        import io
        import warnings
        with warnings.catch_warnings(), contextlib.redirect_stdout(io.StringIO()):
            warnings.simplefilter("ignore")
            CommonRoadFileWriter(sc, pps, "a", "b", "c", {Tag.URBAN}, decimal_precision=12).write_to_file(
                path, OverwriteExistingFile.ALWAYS)
            _, pps2 = CommonRoadFileReader(path).open()
    finally:
        shutil.rmtree(d, ignore_errors=True)
    return pps2.planning_problem_dict[1].goal


def build_region(goal):
    lanelet_map = {}
    states = [build_goal_state(gs, i, lanelet_map) for i, gs in enumerate(goal)]
    return GoalRegion(states, lanelet_map if lanelet_map else None)


def npwrap(v, use_np):
    if not use_np or v is None:
        return v
    return np.int64(v) if isinstance(v, int) else np.float64(v)


def build_query(q, use_np=False):
    kw = {}
    if q["pos"] is not None:
        kw["position"] = np.array(q["pos"])  # two ints give an int array on purpose
    if q["ori"] is not None:
        kw["orientation"] = npwrap(q["ori"], use_np)
    if q["vel"] is not None:
        kw["velocity"] = npwrap(q["vel"], use_np)
    if q["vy"] is not None:
        kw["velocity_y"] = npwrap(q["vy"], use_np)
    for k, v in q["extra"].items():
        kw[k] = v
    t = npwrap(q["t"], use_np)
    if q["cls"] in ("CustomKin", "CustomPM"):
        return S.CustomState(time_step=t, **kw)
    return getattr(S, q["cls"])(time_step=t, **kw)


def is_pm(q):
    return q["cls"] in PM_CLASSES


# ====================================================================================================== oracle
def exactly_on_boundary(g, p):
    """True only if p lies on the boundary of the closed set in exact rational arithmetic AND the library is known to
    work on the very same numbers (raw vertices; axis points of circles)."""
    if g["k"] == "group":
        return any(exactly_on_boundary(m, p) for m in g["m"])
    px, py = F(p[0]), F(p[1])
    if g["k"] == "circle":
        dx, dy = px - F(g["c"][0]), py - F(g["c"][1])
        r = F(g["r"])
        return (dy == 0 and abs(dx) == r) or (dx == 0 and abs(dy) == r)
    if not g.get("exact"):
        return False
    v = geom.open_ring(g["v"])
    n = len(v)
    for i in range(n):
        a, b = v[i], v[(i + 1) % n]
        if geom.point_seg_dist(p, a, b) > 1e-6:
            continue
        ax, ay, bx, by = F(a[0]), F(a[1]), F(b[0]), F(b[1])
        if (bx - ax) * (py - ay) - (by - ay) * (px - ax) != 0:
            continue
        if min(ax, bx) <= px <= max(ax, bx) and min(ay, by) <= py <= max(ay, by):
            return True
    return False


def tri_position(g, p, exact_ok=True):
    """True / False / None (band) and a class label."""
    pf = [float(p[0]), float(p[1])]
    inside, d = geom.geo_contains_point(g, pf)
    scale = max(geo_extent(g), abs(pf[0]), abs(pf[1]))
    if d <= BAND * (1 + scale):
        if exact_ok and exactly_on_boundary(g, p):
            return True, "pos-exact-boundary"
        return None, "pos-band"
    if d <= 1e-3 * (1 + geom.geo_size(g)):
        return inside, "pos-near-boundary"
    return inside, "pos-in" if inside else "pos-out"


def arc_distance(a, b, th):
    """<0: inside the arc by that margin, >0: outside by that margin (best over the 2pi-images of th)."""
    best = None
    k0 = int(round((0.5 * (a + b) - th) / TWO_PI))
    for k in range(k0 - 2, k0 + 3):
        v = th + TWO_PI * k
        if a <= v <= b:
            d = -min(v - a, b - v)
        else:
            d = min(abs(v - a), abs(v - b))
        if best is None or d < best:
            best = d
    return best


def tri_orientation(ai, th, exact_ok=True):
    a, b = ai
    if exact_ok and F(a) <= F(th) <= F(b):
        return True, "ori-in-direct"
    d = arc_distance(float(a), float(b), float(th))
    if abs(d) <= BAND:
        return None, "ori-band"
    if d < 0:
        return True, ("ori-in-direct" if a <= th <= b else "ori-in-after-wrap")
    return False, "ori-out"


def tri_interval(iv, x):
    return F(iv[0]) <= F(x) <= F(iv[1])


def tri_speed(iv, vx, vy):
    if vy == 0 or vx == 0:
        c = abs(vx) if vy == 0 else abs(vy)
        if c == 0 or 1e-100 <= c <= 1e100:  # sqrt(c*c) == c unless the square under/overflows
            return tri_interval(iv, c), "speed-exact"
    s = math.hypot(vx, vy)
    band = BAND * (1 + s)
    if abs(s - iv[0]) <= band or abs(s - iv[1]) <= band:
        return None, "speed-band"
    return iv[0] <= s <= iv[1], "speed"


def pm_heading(vx, vy):
    if vx == 0 and vy == 0 and (math.copysign(1.0, vx) < 0 or math.copysign(1.0, vy) < 0):
        return None
    return math.atan2(vy, vx)


def evaluate(goal, geos, q, inexact=False):
    """Three-valued verdict of the region plus, per goal state, {attr: True/False/None}, its verdict, and whether its
    orientation constraint is met only after wrapping; labels for the class histogram."""
    per_goal = []
    labels = []
    wrapped = []
    for gs, g in zip(goal, geos):
        res = {"time": tri_interval(gs["t"], q["t"])}
        wrap = False
        if gs["pos"] is not None:
            res["pos"], lab = tri_position(g, q["pos"], exact_ok=not inexact)
            labels.append(lab)
        if gs["ori"] is not None:
            if is_pm(q):
                h = pm_heading(q["vel"], q["vy"])
                if h is None:
                    res["ori"], lab = None, "ori-zero-speed-negzero"
                else:
                    res["ori"], lab = tri_orientation(gs["ori"], h, exact_ok=False)
            else:
                res["ori"], lab = tri_orientation(gs["ori"], q["ori"], exact_ok=not inexact)
            wrap = lab == "ori-in-after-wrap"
            labels.append(lab)
        if gs["vel"] is not None:
            if is_pm(q):
                res["vel"], lab = tri_speed(gs["vel"], q["vel"], q["vy"])
                labels.append(lab)
            else:
                res["vel"] = tri_interval(gs["vel"], q["vel"])
        per_goal.append(res)
        wrapped.append(wrap)
    verdicts = []
    for res in per_goal:
        vals = list(res.values())
        if any(v is False for v in vals):
            verdicts.append(False)
        elif any(v is None for v in vals):
            verdicts.append(None)
        else:
            verdicts.append(True)
    if any(v is True for v in verdicts):
        verdict = True
    elif any(v is None for v in verdicts):
        verdict = None
    else:
        verdict = False
    return verdict, per_goal, verdicts, wrapped, labels


def state_kind(q):
    if q["cls"] == "CustomPM":
        return "custom-vxvy"
    if q["cls"] == "PMState":
        return "pm"
    return "kin"


def classify(verdict, per_goal, verdicts, wrapped):
    """(name of the deciding attribute(s) for bucket names, non-trivial by the facet rule?, labels)."""
    nontrivial = False
    out = []
    failing = set()
    for res, v, wrap in zip(per_goal, verdicts, wrapped):
        if v is False and len(res) >= 2:
            bad = [k for k, x in res.items() if x is False]
            unknown = [k for k, x in res.items() if x is None]
            if len(bad) == 1 and not unknown:
                failing.add(bad[0])
        if v is True and wrap:
            out.append("reached-after-wrap")
            nontrivial = True
    if verdict is False:
        if failing:
            nontrivial = True
            out.extend("decided-by-" + k for k in sorted(failing))
        else:
            out.append("fails-several")
    return "+".join(sorted(failing)) if failing else "several", nontrivial, out


# ====================================================================================================== the check
INITIAL = dict(time_step=0, position=[0.0, 0.0], orientation=0.0, velocity=0.0, yaw_rate=0.0, slip_angle=0.0)


def check_case(r, ctx):
    goal, queries, use_np = r["goal"], r["states"], bool(r.get("np"))
    for gs in goal:
        if gs["pos"] is not None and gs["pos"]["k"] == "lanelets":
            for ll in gs["pos"]["ll"]:
                if not geom.is_simple(gg.lanelet_ring(ll)):
                    ctx.discard("lanelet-ring-not-simple")
    geos = [goal_geo(gs["pos"]) if gs["pos"] is not None else None for gs in goal]
    SETTERS[0] = r.get("route") == "shapes-via-setters"   # goal shapes that got their values through the setters
    try:
        region = build_region(goal)
    finally:
        SETTERS[0] = False
    if r.get("route") == "deepcopy":       # the goal region reaches the check as a copy (planning problems are copied)
        region = copy.deepcopy(region)
    elif r.get("route") == "pickle":
        region = pickle.loads(pickle.dumps(region))
    moved_back = False
    if r.get("route") == "moved-and-back" and not any(gs["pos"] is not None and gs["pos"]["k"] == "lanelets"
                                                      for gs in goal):
        # the region has answered a query, is moved by a rigid motion and moved back by the inverse motion: it is the
        # region it was, up to rounding (exact boundary cases become don't-cares)
        t, a = [3.0, -2.0], 0.7
        try:
            region.is_reached(build_query(queries[0], use_np))
        except Exception:
            pass
        region.translate_rotate(np.array(t), a)
        back = geom.rot([-t[0], -t[1]], a)
        region.translate_rotate(np.array(back), -a)
        moved_back = True
    if r.get("route") == "xml-file" and len(goal) == 1 and goal[0]["pos"] is not None and \
            goal[0]["pos"]["k"] == "lanelets" and goal[0]["ori"] is None and goal[0]["vel"] is None and \
            all(isinstance(v, int) and not isinstance(v, bool) for v in goal[0]["t"]):
        # the goal (given by lanelet references) has been written to an XML file and read back: the region that is
        # checked is the one the reader built (one process reads many such files with recurring lanelet ids)
        region = _through_xml(goal[0], region)
        moved_back = True      # coordinates went through 12 decimals: exact boundary cases become don't-cares
        ctx.label("region-read-from-xml")
    if r.get("route"):
        ctx.label("region-" + r["route"])
    if r.get("stream_exhausted"):
        ctx.label("generator-stream-exhausted")
    ctx.label("goal-states-%d" % len(goal))
    for gs in goal:
        ctx.label("constrains-" + "".join(c for c, k in (("p", "pos"), ("o", "ori"), ("v", "vel")) if gs[k] is not None)
                  if any(gs[k] is not None for k in ("pos", "ori", "vel")) else "constrains-time-only")
        if gs["pos"] is not None:
            ctx.label("shape-" + gs["pos"]["k"])
        if gs["ori"] is not None:
            ln = gs["ori"][1] - gs["ori"][0]
            ctx.label("arc-len-0" if ln == 0 else "arc<pi" if ln < math.pi else "arc>=pi")
            if gs["ori"][0] < -math.pi < gs["ori"][1] or gs["ori"][0] < math.pi < gs["ori"][1]:
                ctx.label("arc-across-pi")
            if isinstance(gs["ori"][0], int):
                ctx.label("arc-int-ends")
    expected = []
    any_nontrivial = False
    for i, q in enumerate(queries):
        verdict, per_goal, verdicts, wrapped, labels = evaluate(goal, geos, q, inexact=moved_back)
        expected.append(verdict)
        suffix, nontrivial, labs = classify(verdict, per_goal, verdicts, wrapped)
        any_nontrivial = any_nontrivial or nontrivial
        for lab in set(labels) | set(labs):
            ctx.label(lab)
        ctx.label("query-" + q["cls"])
        if any(isinstance(q[k], int) for k in ("ori", "vel", "vy")) or (
                q["pos"] is not None and all(isinstance(x, int) for x in q["pos"])):
            ctx.label("query-int-valued")
        state = build_query(q, use_np)
        got = region.is_reached(state)
        if not isinstance(got, (bool, np.bool_)):
            raise Violation("is-reached-not-bool", "is_reached returned %r (%s)" % (got, type(got)))
        if verdict is None:
            ctx.band_case("verdict-band")
            continue
        ctx.label("reached" if verdict else "not-reached")
        if bool(got) != verdict:
            kind = state_kind(q)
            if verdict:
                bucket = "rejects-satisfied:%s" % kind
            else:  # the deciding attribute names the bucket only where it is unambiguous (one goal state)
                bucket = "accepts-unsatisfied:%s:%s" % (kind, suffix if len(goal) == 1 else "several-goal-states")
            raise Violation(bucket, "state %d %r: is_reached = %r, specification says %r; per goal state %r; goal %r" % (
                i, q, got, verdict, per_goal, goal))
        if i == 0:
            again = region.is_reached(state)
            if bool(again) != bool(got):
                raise Violation("verdict-changes-on-second-call", "state %r: first %r then %r" % (q, got, again))
    if r.get("traj"):
        states = [build_query(q, use_np) for q in queries]
        traj = Trajectory(queries[0]["t"], states)
        init = S.InitialState(**dict(INITIAL, position=np.array(INITIAL["position"])))
        pp = PlanningProblem(1, init, region)
        res = pp.goal_reached(traj)
        if not (isinstance(res, tuple) and len(res) == 2 and isinstance(res[0], (bool, np.bool_))
                and isinstance(res[1], (int, np.integer)) and not isinstance(res[1], (bool, np.bool_))):
            raise Violation("goal-reached-shape", "goal_reached returned %r" % (res,))
        ok, idx = bool(res[0]), int(res[1])
        some_true = any(v is True for v in expected)
        some_band = any(v is None for v in expected)
        detail = "goal_reached = %r; per-state specification verdicts %r; states %r; goal %r" % (
            res, expected, queries, goal)
        if ok:
            if not 0 <= idx < len(queries):
                raise Violation("goal-reached-index-out-of-range", detail)
            if expected[idx] is False:
                raise Violation("goal-reached-index-not-reaching" if some_true else "goal-reached-false-success", detail)
        else:
            if idx != -1:
                raise Violation("goal-reached-failure-index", detail)
            if some_true:
                raise Violation("goal-reached-missed", detail)
        if some_true:
            ctx.label("traj-reaches")
            if expected[-1] is not True:
                ctx.label("traj-reaches-not-last")
            if expected[0] is not True:
                ctx.label("traj-reaches-not-first")
        elif some_band:
            ctx.band_case("traj-band")
        else:
            ctx.label("traj-misses")
        ctx.label("traj-len-%d" % len(queries))
    if any_nontrivial:
        ctx.nontrivial()


# ====================================================================================================== facets
SIMPLE_SHAPES = ["rect", "circle", "poly", "group"]
OPTS = {
    "kinematic": {"classes": KIN_CLASSES, "shapes": SIMPLE_SHAPES},
    "point-mass": {"classes": PM_CLASSES, "shapes": SIMPLE_SHAPES, "pm_velocity": True,
                   "subsets": ["o", "v", "ov", "ov", "po", "pv", "pov", "pov", "p"]},
    "lanelet-goal": {"classes": KIN_CLASSES + PM_CLASSES, "shapes": ["lanelets", "lanelets", "lanelets", "poly"],
                     "subsets": ["p", "p", "po", "pv", "pov"], "pm_velocity": True},
    "angle-intervals": {"classes": KIN_CLASSES + PM_CLASSES, "shapes": ["rect", "circle"], "long_arcs": True,
                        "subsets": ["o", "o", "ov", "po", "pov"], "int_rate": 0.3, "pm_velocity": True},
    "goal-reached": {"classes": KIN_CLASSES + PM_CLASSES, "shapes": SIMPLE_SHAPES + ["lanelets"], "traj": True,
                     "pm_velocity": True},
}


def strategy(name):
    return lambda tier: st.tuples(gg.case_strategy(OPTS[name]), st.sampled_from([None, None, None, "deepcopy", "pickle", "moved-and-back", "shapes-via-setters", "xml-file"])
                                  ).map(lambda t: dict(t[0], route=t[1]))


NT = ("non-trivial = some goal state with >= 2 constrained attributes (time included) fails in exactly one attribute and "
      "the region is not reached, or the region is reached with the orientation outside [a, b] before wrapping")
FACETS = [
    Facet("kinematic", check_case, strategy=strategy("kinematic"), quick=7000, thorough=250000, max_shrink_s=15,
          rule="1-3 goal states (rect/circle/polygon/group positions, any arcs, velocity intervals) x 1-4 kinematic "
               "query states (Initial/KS/KST/ST/STD/ExtendedPM/custom with orientation) placed relative to a goal "
               "state; " + NT),
    Facet("point-mass", check_case, strategy=strategy("point-mass"), quick=7000, thorough=250000, max_shrink_s=15,
          rule="same regions x PMState / custom (velocity, velocity_y) states: speed = hypot, heading = atan2 in all "
               "four quadrants and on the axes; " + NT),
    Facet("lanelet-goal", check_case, strategy=strategy("lanelet-goal"), quick=4000, thorough=120000, max_shrink_s=15,
          rule="goal positions given as 1-3 lanelets (free or chained) built as the reader does, all query classes; "
               + NT),
    Facet("angle-intervals", check_case, strategy=strategy("angle-intervals"), quick=6000, thorough=200000, max_shrink_s=15,
          rule="orientation-centred regions: arcs longer than pi, across +-pi, zero length, int ends; int-valued and "
               "2pi-shifted query values; " + NT),
    Facet("goal-reached", check_case, strategy=strategy("goal-reached"), quick=6000, thorough=200000, max_shrink_s=15,
          rule="PlanningProblem.goal_reached on trajectories of 1-8 states (one class, consecutive steps) plus "
               "is_reached per state; " + NT),
]
