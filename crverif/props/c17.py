"""C17 - traffic-light state follows the cycle definition."""
import copy
import itertools

import numpy as np
from hypothesis import strategies as st

from commonroad.scenario.traffic_light import (TrafficLight, TrafficLightCycle, TrafficLightCycleElement,
                                               TrafficLightState)

from crverif.core import Facet, Violation

RULE = ("fresh TrafficLightCycle per case; expected state = explicit list of colours of one period indexed by "
        "(t - offset) mod total")
ASSUMPTIONS = ["durations are positive ints, offset >= 0 (the statement's domain)",
               "a fresh cycle object per case; in a third of the generated cases the cycle gets its offset through the "
               "public setter after one query, in another third the object has been used with other elements / "
               "another cycle before (longer mutation histories are C11's business)",
               "the 'active' flags of light and cycle do not enter the state (the statement defines the state by the "
               "cycle alone; the unchanged library agrees)"]

COLOURS = [c.name for c in TrafficLightState]


def reference(durations, colours, offset, t):
    period = []
    for d, c in zip(durations, colours):
        period.extend([c] * d)
    return period[(t - offset) % len(period)]


def check(recipe, ctx):
    durations, colours, offset, ts = recipe["durations"], recipe["colours"], recipe["offset"], recipe["ts"]
    total = sum(durations)
    bounds = set(itertools.accumulate(durations))
    hist = recipe.get("history")
    dt = recipe.get("np_durations")
    if dt is not None and all(d <= np.iinfo(dt).max for d in durations):
        wrap = getattr(np, dt)          # integer durations of a small numpy type (their total may not fit that type)
        ctx.label("numpy-durations-" + dt)
    else:
        wrap = int
    for mode in ("cycle", "light"):
        elements = [TrafficLightCycleElement(TrafficLightState[c], wrap(d)) for c, d in zip(colours, durations)]
        light = None
        if hist is not None:
            # the object under test has been used before with another cycle definition and reaches the recipe's
            # definition through a public setter: the offset setter, the cycle_elements setter (same phases in another
            # order, possibly one of them repeated) or, for a light, the assignment of a new cycle
            order = sorted(range(len(elements)), key=lambda i: (hist["order"][i % len(hist["order"])], i))
            first = [TrafficLightCycleElement(elements[i].state, elements[i].duration) for i in order]
            if hist["repeat"]:
                first.append(TrafficLightCycleElement(first[0].state, first[0].duration))
            cycle = TrafficLightCycle(first, time_offset=hist["offset"] if hist["kind"] == "offset" else offset,
                                      active=recipe.get("cycle_active", True))
            if hist["kind"] == "offset":
                cycle.cycle_elements = elements
            obj = cycle
            if mode == "light":
                light = obj = TrafficLight(7, np.array([1.0, 2.0]), cycle, active=recipe.get("active", True))
            for t in ts[:2]:
                obj.get_state_at_time_step(t)
            if hist["kind"] == "offset":
                cycle.time_offset = offset
            elif hist["kind"] == "durations-in-place":
                # the elements are set to the recipe's (same number of phases) and are then edited in place one by one
                # through their public setters, starting from the recipe's durations in another order
                cycle.cycle_elements = [TrafficLightCycleElement(e.state, elements[j].duration)
                                        for e, j in zip(elements, order)]
                obj.get_state_at_time_step(ts[0])
                for e, target in zip(cycle.cycle_elements, elements):
                    e.duration = target.duration
            elif hist["kind"] == "states-in-place":
                # same durations, the colours in another order; queried; then every colour is set in place
                cycle.cycle_elements = [TrafficLightCycleElement(elements[j].state, e.duration)
                                        for e, j in zip(elements, order)]
                for t in ts:
                    obj.get_state_at_time_step(t)
                for e, target in zip(cycle.cycle_elements, elements):
                    e.state = target.state
            elif hist["kind"] == "shallow-copy-offset":
                # a shallow copy of the (already used) cycle gets another offset: the original keeps following its own
                cycle.cycle_elements = elements
                obj.get_state_at_time_step(ts[0])
                twin = copy.copy(cycle)
                twin.time_offset = hist["offset"] + 1 + offset
                twin.get_state_at_time_step(ts[0])
            elif hist["kind"] == "elements" or light is None:
                cycle.cycle_elements = elements
            else:
                light.traffic_light_cycle = TrafficLightCycle(elements, time_offset=offset,
                                                              active=recipe.get("cycle_active", True))
        elif recipe.get("initial_offset") is not None:
            # the cycle reaches its offset through the public setter after it has been queried once
            cycle = TrafficLightCycle(elements, time_offset=recipe["initial_offset"])
            cycle.get_state_at_time_step(ts[0])
            cycle.time_offset = offset
            obj = cycle
        else:
            obj = cycle = TrafficLightCycle(elements, time_offset=offset, active=recipe.get("cycle_active", True))
        if mode == "light" and light is None:
            obj = TrafficLight(7, np.array([1.0, 2.0]), cycle, active=recipe.get("active", True))
            if recipe.get("active_via_setter"):
                obj.get_state_at_time_step(ts[0])
                obj.active = not recipe.get("active", True)
                obj.get_state_at_time_step(ts[0])
                obj.active = recipe.get("active", True)
        for t in ts:
            got = obj.get_state_at_time_step(t)
            exp = reference(durations, colours, offset, t)
            if not isinstance(got, TrafficLightState) or got.name != exp:
                raise Violation("state-%s" % mode, "durations=%s colours=%s offset=%s t=%s: got %s expected %s "
                                "(history %r, active %r)" % (durations, colours, offset, t, got, exp, hist,
                                                              recipe.get("active", True)))
            got2 = obj.get_state_at_time_step(t + total)
            if got2 != got:
                raise Violation("periodicity-%s" % mode, "t=%s total=%s: %s vs %s" % (t, total, got, got2))
    if hist is not None:
        ctx.label("history-" + hist["kind"])
    if not recipe.get("active", True):
        ctx.label("light-inactive")
    for t in ts:
        rel = (t - offset) % total
        if t - offset < 0:
            ctx.label("before-offset")
        if rel == 0 or rel in bounds or (rel + 1) in bounds:
            ctx.label("phase-boundary")
        if t - offset > 3 * total:
            ctx.label("late-period")
    if len(durations) == 1:
        ctx.label("single-element")
    if any(t - offset < 0 or ((t - offset) % total) in bounds or (t - offset) % total == 0 or t - offset > 3 * total
           for t in ts) or len(durations) == 1:
        ctx.nontrivial()


def check_file(recipe, ctx):
    """The light is part of a scenario that is written to a file: afterwards the in-memory light still follows its cycle
    definition (writing only reads), and so does the light read back from the file."""
    import os
    import shutil
    import tempfile
    import warnings
    from commonroad.common.file_reader import CommonRoadFileReader
    from commonroad.common.file_writer import CommonRoadFileWriter, OverwriteExistingFile
    from commonroad.common.util import FileFormat
    from commonroad.planning.planning_problem import PlanningProblemSet
    from commonroad.scenario.lanelet import Lanelet, LaneletNetwork
    from commonroad.scenario.scenario import Scenario, Tag
    from crverif.gen import fileprofile as fp
    from crverif.gen.pbprofile import pb_profile_base
    durations, colours, offset, ts = recipe["durations"], recipe["colours"], recipe["offset"], recipe["ts"]
    fmt = recipe["fmt"]
    allowed = fp.xml_profile_base()["light_colours"] if fmt == "xml" else pb_profile_base()["light_colours"]
    if any(c not in allowed for c in colours):
        ctx.discard("colour-not-in-format")
    total = sum(durations)
    elements = [TrafficLightCycleElement(TrafficLightState[c], d) for c, d in zip(colours, durations)]
    cycle = TrafficLightCycle(elements, time_offset=offset)
    light = TrafficLight(7, np.array([1.0, 2.0]), cycle, active=recipe["active"])
    xs = np.array([0.0, 10.0, 20.0])
    lanelet = Lanelet(np.column_stack((xs, xs * 0 + 2)), np.column_stack((xs, xs * 0)), np.column_stack((xs, xs * 0 - 2)),
                      1)
    net = LaneletNetwork.create_from_lanelet_list([lanelet])
    net.add_traffic_light(light, {1})
    sc = Scenario(0.1)
    sc.add_objects(net)
    light = sc.lanelet_network.find_traffic_light_by_id(7)
    if recipe["query_first"]:
        light.get_state_at_time_step(ts[0])
    d = tempfile.mkdtemp(prefix="crverif-c17-")
    try:
        ff = FileFormat.XML if fmt == "xml" else FileFormat.PROTOBUF
        path = os.path.join(d, "s.xml" if fmt == "xml" else "s.pb")
        import contextlib
        import io
        with warnings.catch_warnings(), contextlib.redirect_stdout(io.StringIO()):
            warnings.simplefilter("ignore")
            CommonRoadFileWriter(sc, PlanningProblemSet(), "a", "b", "c", {Tag.URBAN}, file_format=ff).write_to_file(
                path, OverwriteExistingFile.ALWAYS)
            sc2, _ = CommonRoadFileReader(path, file_format=ff).open()
    finally:
        shutil.rmtree(d, ignore_errors=True)
    back = sc2.lanelet_network.find_traffic_light_by_id(7)
    if back is None:
        raise Violation("file-light-lost-" + fmt, "traffic light 7 is not in the scenario read back")
    for who, obj in (("written", light), ("read-back", back)):
        for t in ts:
            got = obj.get_state_at_time_step(t)
            exp = reference(durations, colours, offset, t)
            if not isinstance(got, TrafficLightState) or got.name != exp:
                raise Violation("state-%s-light-%s" % (who, fmt), "durations=%s colours=%s offset=%s active=%r t=%s: "
                                "got %s expected %s" % (durations, colours, offset, recipe["active"], t, got, exp))
            if obj.get_state_at_time_step(t + total) != got:
                raise Violation("periodicity-%s-light-%s" % (who, fmt), "t=%s total=%s" % (t, total))
    ctx.label("format-" + fmt)
    if not recipe["active"]:
        ctx.label("light-inactive")
    if offset % total != 0:
        ctx.label("offset-not-multiple-of-period")
        ctx.nontrivial()


def s_file(tier):
    return st.integers(1, 5).flatmap(lambda k: st.fixed_dictionaries({
        "durations": st.lists(st.integers(1, 12), min_size=k, max_size=k),
        "colours": st.lists(st.sampled_from(COLOURS), min_size=k, max_size=k),
        "offset": st.one_of(st.integers(0, 40), st.integers(0, 3)),
        "ts": st.lists(st.one_of(st.integers(-30, 200), st.integers(-5, 40)), min_size=2, max_size=8),
        "fmt": st.sampled_from(["xml", "pb"]), "active": st.sampled_from([True, True, False]),
        "query_first": st.booleans()}))


def enumerate_small(tier):
    cols = ["RED", "GREEN", "YELLOW"]
    ts = list(range(-12, 41))
    for n in (1, 2, 3):
        for durations in itertools.product(range(1, 5), repeat=n):
            for offset in range(0, 6):
                yield {"durations": list(durations), "colours": cols[:n], "offset": offset, "ts": ts}


def strategy(tier):
    n = st.integers(1, 6)
    return n.flatmap(lambda k: st.fixed_dictionaries({
        "durations": st.lists(st.integers(1, 20), min_size=k, max_size=k),
        "colours": st.lists(st.sampled_from(COLOURS), min_size=k, max_size=k),
        "offset": st.one_of(st.integers(0, 50), st.integers(0, 3)),
        "ts": st.lists(st.one_of(st.integers(-100, 400), st.integers(-5, 60), st.integers(1000, 100000)),
                       min_size=1, max_size=8),
        "initial_offset": st.one_of(st.none(), st.none(), st.integers(0, 50)),
        "history": st.one_of(st.none(), st.none(), st.fixed_dictionaries({
            "kind": st.sampled_from(["offset", "elements", "new-cycle", "durations-in-place", "states-in-place",
                                     "shallow-copy-offset"]),
            "offset": st.integers(0, 50),
            "order": st.lists(st.integers(0, 9), min_size=6, max_size=6), "repeat": st.booleans()})),
        # the 'active' flags describe whether the light is switched on, not which phase its cycle is in
        "active": st.sampled_from([True, True, False]), "cycle_active": st.sampled_from([True, True, False]),
        "active_via_setter": st.booleans(),
        "np_durations": st.sampled_from([None, None, None, "int8", "int16", "int32", "int64"]),   # signed types only
    }))


FACETS = [
    Facet("through-a-file", check_file, strategy=s_file, quick=1200, thorough=40000,
          rule="a light (1-5 phases, offset 0-40, active or not) in a one-lanelet scenario written as XML / protobuf: the "
               "in-memory light after the write and the light read back both follow the cycle definition; non-trivial = "
               "offset not a multiple of the period"),
    Facet("exhaustive-small", check, enumerate=enumerate_small, shards_quick=4, shards_thorough=4,
          rule="complete enumeration: <=3 elements, durations 1-4, offsets 0-5, t in [-12,40]; one case = one cycle "
               "queried at all 53 t; non-trivial = has t before offset / at phase boundary / single element"),
    Facet("generated", check, strategy=strategy, quick=6000, thorough=300000,
          rule="1-6 elements, durations 1-20, any colours (repeats), offset 0-50, 1-8 time steps in [-100, 1e5]; "
               "non-trivial = some t before offset, at a phase boundary, > 3 periods late, or single-element cycle"),
]
