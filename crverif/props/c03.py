"""C03 - every written XML scenario file is valid against the 2020a schema (and accepted by the library's reader)."""
import copy
import os
import re
import shutil
import tempfile
import warnings

from hypothesis import strategies as st
from lxml import etree

from commonroad.common.file_reader import CommonRoadFileReader

from crverif.core import Facet, Violation
from crverif.gen import fileprofile as fp
from crverif.props import fileio

RULE = ("lxml XMLSchema(shipped XSD).validate(written bytes) incl. key/keyref; independent lexical scan of every numeric "
        "text node (plain decimal, no exponent / nan / inf); CommonRoadFileReader accepts the file")
ASSUMPTIONS = ["C01 domain with >= 1 planning problem (the schema requires one) and magnitude classes forced to appear: "
               "lengths / radii down to 1e-7, orientations 1e-9..1e-4, coordinates up to 1e5 and down to 1e-7, small "
               "time step sizes, location numbers of both kinds",
               "references are resolvable by construction, so a key/keyref failure is the writer's",
               "trusts lxml's XSD validator"]

_schema = None
PLAIN = re.compile(r"^[+-]?(\d+(\.\d*)?|\.\d+)$")

SMALL_POS = [1e-7, 1e-5, 2.5e-5, 9.999e-5, 1e-4, 3e-6]
SMALL_ANGLE = [1e-9, 1e-6, -1e-7, 1e-5, 9e-5, -1e-4, 0.0]
COORDS = [1e5, -1e5, 1e-7, -1e-6, 123456.789, 99999.99999, 1e-5, 5e-5]
DTS = [1e-3, 1e-5, 0.001, 2.5e-4, 10.0, 1e-4]
WIDE_ARCS = [[-3.14159, 3.14159], [-3.1415926, 3.1415926], [0.0, 6.28318], [-6.28318, -0.00001], [-3.1, 3.18318],
             [-1.57079632, 4.71238898]]
LOCS = [1e-5, -1e-6, 89.99999, 1e-7, 0.00001234]


def schema():
    global _schema
    if _schema is None:
        _schema = etree.XMLSchema(etree.parse(fp.XSD_PATH))
    return _schema


class Chooser:
    def __init__(self, choices):
        self.c = choices
        self.i = 0
        self.used = 0

    def pick(self, table, current):
        v = self.c[self.i % len(self.c)]
        self.i += 1
        if v < 0.8:
            return current
        self.used += 1
        return table[int((v - 0.8) / 0.2 * len(table)) % len(table)]


def extremize_shape(s, ch):
    if s["k"] == "rect":
        s["l"] = ch.pick(SMALL_POS + [1e5], s["l"])
        s["w"] = ch.pick(SMALL_POS + [1e5], s["w"])
        if s.get("o") is not None:
            s["o"] = ch.pick(SMALL_ANGLE, s["o"])
        if s.get("c") is not None:
            s["c"] = [ch.pick(COORDS, s["c"][0]), ch.pick(COORDS, s["c"][1])]
    elif s["k"] == "circle":
        s["r"] = ch.pick(SMALL_POS + [1e5], s["r"])
        if s.get("c") is not None:
            s["c"] = [ch.pick(COORDS, s["c"][0]), ch.pick(COORDS, s["c"][1])]
    elif s["k"] == "group":
        for m in s["m"]:
            extremize_shape(m, ch)


def extremize_state(s, ch):
    for k, v in s["a"].items():
        if isinstance(v, dict):
            if "shape" in v:
                extremize_shape(v["shape"], ch)
            elif "ai" in v and k == "orientation":
                # "any heading": angle intervals just short of the full circle (the reader demands width < 2 pi)
                v["ai"] = ch.pick(WIDE_ARCS, v["ai"])
            continue
        if k == "position":
            s["a"][k] = [ch.pick(COORDS, v[0]), ch.pick(COORDS, v[1])]
        elif k == "orientation":
            s["a"][k] = ch.pick(SMALL_ANGLE, v)
        else:
            s["a"][k] = ch.pick(SMALL_ANGLE + [1e-5, 12345.678], v)


def extremize(r, choices):
    r = copy.deepcopy(r)
    ch = Chooser(choices)
    r["dt"] = ch.pick(DTS, r["dt"])
    loc = r.get("location")
    if loc:
        loc["gps_latitude"] = ch.pick(LOCS, loc["gps_latitude"])
        loc["gps_longitude"] = ch.pick(LOCS, loc["gps_longitude"])
        if loc.get("geo"):
            g = loc["geo"]
            g["x_translation"] = ch.pick(COORDS + [5e6], g["x_translation"])
            g["y_translation"] = ch.pick(COORDS + [5e6], g["y_translation"])
            g["z_rotation"] = ch.pick(SMALL_ANGLE, g["z_rotation"])
            g["scaling"] = ch.pick(SMALL_POS + [1.0], g["scaling"])
    for s in r["signs"] + r["lights"]:
        s["position"] = [ch.pick(COORDS, s["position"][0]), ch.pick(COORDS, s["position"][1])]
    for o in r["obstacles"]:
        if o.get("shape"):
            extremize_shape(o["shape"], ch)
        if o.get("init"):
            extremize_state(o["init"], ch)
        p = o.get("pred")
        if p and p["k"] == "traj":
            for s in p["traj"]["states"]:
                extremize_state(s, ch)
        elif p:
            for oc in p["occ"]:
                extremize_shape(oc["shape"], ch)
    for p in r["pps"]:
        extremize_state(p["init"], ch)
        for s in p["goal"]["states"]:
            if not p["goal"]["lanelets"]:
                extremize_state(s, ch)
    r["_extremes"] = ch.used
    return r


def lexical_scan(root):
    bad = []
    for el in root.iter():
        t = el.text
        if t is None or not isinstance(el.tag, str) or len(el) > 0:
            continue
        t = t.strip()
        if el.tag in ("additionalValue", "geoReference", "trafficSignID", "time") and ":" in t:
            continue
        if el.tag in ("additionalValue", "geoReference", "trafficSignID"):
            continue
        try:
            float(t)
        except ValueError:
            continue
        if not PLAIN.match(t):
            bad.append((el.tag, t))
    t = root.get("timeStepSize")
    if t is not None and not PLAIN.match(t):
        bad.append(("@timeStepSize", t))
    return bad


def check(r, ctx):
    d = tempfile.mkdtemp(prefix="crverif-c03-")
    try:
        path = os.path.join(d, "s.xml")
        with warnings.catch_warnings():
            warnings.simplefilter("ignore")
            fileio.write_file(r, "xml", path)
        with open(path, "rb") as f:
            data = f.read()
        root = etree.fromstring(data)
        bad = lexical_scan(root)
        if bad:
            raise Violation("number-format:" + bad[0][0], "not plain decimal notation: %r (decimals=%d)" % (
                bad[:5], r["decimals"]))
        from commonroad.common.file_writer import CommonRoadFileWriter
        from commonroad.common.util import FileFormat
        own = CommonRoadFileWriter.check_validity_of_commonroad_file(data, FileFormat.XML)
        sch = schema()
        ok = sch.validate(root)
        if ok and own is not True:
            # the library's own validity check reads the same shipped schema: it must not reject a valid file
            raise Violation("own-validity-check-rejects-valid-file", "check_validity_of_commonroad_file returned %r for "
                            "a file that validates against the shipped XSD" % (own,))
        if not ok:
            err = sch.error_log[0]
            m = re.search(r"Element '([^']+)'", err.message)
            raise Violation("xsd:%s:%s" % (err.type_name, m.group(1) if m else "?"), "%s (line %d); %d errors" % (
                err.message, err.line, len(sch.error_log)))
        try:
            with warnings.catch_warnings():
                warnings.simplefilter("ignore")
                CommonRoadFileReader(path).open()
        except Exception as e:
            import traceback
            tb = traceback.extract_tb(e.__traceback__)
            site = [f for f in tb if "/commonroad/" in f.filename]
            raise Violation("reader-rejects:%s@%s" % (type(e).__name__, site[-1].name if site else "?"),
                            "".join(traceback.format_exception(type(e), e, e.__traceback__))[-1500:])
    finally:
        shutil.rmtree(d, ignore_errors=True)
    ctx.label("decimals-%d" % r["decimals"])
    ctx.label("extremes-%d" % min(r.get("_extremes", 0), 5))
    optional = sum(1 for x in (r["signs"], r["lights"], r["intersections"], r.get("location"),
                               [l for l in r["lanelets"] if l.get("stop_line")],
                               [o for o in r["obstacles"] if o.get("signals") or o.get("signal0")]) if x)
    if r.get("_extremes", 0) > 0 or optional >= 3:
        ctx.nontrivial()


def s_base(tier, **kw):
    use = st.one_of(st.just({}), st.just({}), st.just({"reuse": True}), st.just({"reuse": "edited"}), st.just({"open_rings": True}), st.just({"pre_use": True}),
                    st.tuples(st.sampled_from(["xml", "pb"]), st.integers(1, 12)).map(lambda t: {"decoy": list(t)}))
    return st.tuples(fp.file_scenario("xml", min_pps=1, **kw), st.booleans(),
                     st.lists(st.floats(0, 1), min_size=48, max_size=48), use).map(
        lambda t: extremize(dict(t[0], use_scenario_meta=t[1], **t[3]), t[2]))


FACETS = [
    Facet("magnitudes-obstacles", check, strategy=lambda tier: s_base(tier, max_lanelets=2, max_obstacles=5, max_pps=1),
          quick=1200, thorough=60000,
          rule="obstacle-heavy scenarios with ~20 % of the numeric fields replaced by extreme magnitudes (1e-7..1e5); "
               "non-trivial = >= 1 extreme value or >= 3 optional element kinds present"),
    Facet("magnitudes-planning", check, strategy=lambda tier: s_base(tier, max_lanelets=2, max_obstacles=0, max_pps=3),
          quick=800, thorough=40000, rule="planning problems / goal regions with extreme magnitudes"),
    Facet("structure", check, strategy=lambda tier: s_base(tier, max_lanelets=7, max_obstacles=3, max_pps=2),
          quick=1000, thorough=50000,
          rule="networks with signs, lights, stop lines, intersections, location / environment: element order, "
               "optional elements, enumerations, id/ref keys"),
]
