"""C18 - read-only operations do not change scenarios or planning problems."""
import contextlib
import copy
import io
import os
import pickle
import shutil
import tempfile
import warnings
from collections import defaultdict

import numpy as np
from hypothesis import strategies as st
from lxml import etree

from commonroad.common.file_writer import CommonRoadFileWriter, OverwriteExistingFile
from commonroad.common.util import FileFormat, Interval
from commonroad.planning.goal import GoalRegion
from commonroad.planning.planning_problem import PlanningProblem, PlanningProblemSet
from commonroad.scenario.obstacle import DynamicObstacle, ObstacleRole, StaticObstacle
from commonroad.scenario.scenario import Tag
from commonroad.scenario.trajectory import Trajectory

from crverif import snapshot as sn
from crverif.core import Facet, Violation
from crverif.gen import fileprofile as fp
from crverif.gen import geometry as gg
from crverif.gen import scenario as gs
from crverif.props import fileio

RULE = ("deep structural snapshot (public accessors: attribute names and values of every state, id tables with key sets "
        "and concrete type, vertices, relations, registries, metadata) before vs after each read-only operation; "
        "exact comparison; export before/after equal modulo the date stamp")
ASSUMPTIONS = ["an exception raised by a read-only operation is not a mutation (it belongs to the property that owns the "
               "operation); the snapshot comparison is still made",
               "scenarios are file-expressible ones enriched with custom (vx, vy) trajectories without orientation, goal "
               "lanelet tables that are default dicts or cover only some goal states, obstacles with None defaults"]

OPS = ["occupancies", "states", "scenario-queries", "lookups", "lanelet-geometry", "merge-queries", "traffic-lights",
       "goal-check", "eq",
       "hash", "copy", "deepcopy", "pickle", "str", "write-xml", "write-pb", "render"]


def deep_snapshot(sc, pps, queries=True):
    """queries=False: attributes only (nothing is asked of the objects that could compute or memoise anything)."""
    s = sn.snap_scenario(sc)
    for o in sc.obstacles:
        d = s["obstacles"][str(o.obstacle_id)]
        if isinstance(o, (StaticObstacle, DynamicObstacle)):
            d["initial_center_lanelet_ids"] = ("n",) if o.initial_center_lanelet_ids is None else sn.idset(
                o.initial_center_lanelet_ids)
            d["initial_shape_lanelet_ids"] = ("n",) if o.initial_shape_lanelet_ids is None else sn.idset(
                o.initial_shape_lanelet_ids)
            d["signal_series_is_none"] = ("b", o.signal_series is None)
            d["state_attribute_names"] = ("s", ",".join(o.initial_state.attributes))
        if isinstance(o, DynamicObstacle):
            p = o.prediction
            d["history_len"] = ("i", len(o.history))
            if p is not None and hasattr(p, "trajectory"):
                d["traj_attribute_names"] = [("s", ",".join(st_.attributes)) for st_ in p.trajectory.state_list]
                d["center_lanelet_assignment"] = ("s", repr(p.center_lanelet_assignment))
                d["shape_lanelet_assignment"] = ("s", repr(p.shape_lanelet_assignment))
    for la in sc.lanelet_network.lanelets:
        d = s["network"]["lanelets"][str(la.lanelet_id)]
        d["center"] = sn.line(la.center_vertices)
        d["static_obstacles_on_lanelet"] = sn.idset(la.static_obstacles_on_lanelet)
        d["dynamic_obstacles_on_lanelet"] = ("s", repr(sorted((k, sorted(v)) for k, v in
                                                            la.dynamic_obstacles_on_lanelet.items())))
        # the relation lists as they stand (their order is what the protobuf format stores)
        d["successor_list"] = ("s", repr([int(x) for x in la.successor]))
        d["predecessor_list"] = ("s", repr([int(x) for x in la.predecessor]))
    # answers of the spatial index at one interior point per lanelet (a read-only query, so part of what may not change)
    pts = [0.5 * (np.asarray(la.left_vertices)[0] + np.asarray(la.right_vertices)[1]) for la in
           sc.lanelet_network.lanelets]
    for tl in sc.lanelet_network.traffic_lights:
        if tl.traffic_light_cycle is not None:
            s["network"]["traffic_lights"][str(tl.traffic_light_id)]["cycle_active"] = (
                "s", repr(tl.traffic_light_cycle.active))
    if pts and queries:
        s["network"]["lookup_answers"] = ("s", repr([sorted(a) for a in sc.lanelet_network.find_lanelet_by_position(pts)]))
    for tl in sc.lanelet_network.traffic_lights:
        cyc = tl.traffic_light_cycle
        if queries and cyc is not None and cyc.cycle_elements:
            d = s["network"]["traffic_lights"][str(tl.traffic_light_id)]
            d["cycle_init_timesteps"] = ("s", repr([int(v) for v in cyc.cycle_init_timesteps]))
            d["answers"] = ("s", ",".join(tl.get_state_at_time_step(t).name for t in range(0, 14)))
    s["scenario_version"] = ("s", str(sc.scenario_id.scenario_version))
    p = sn.snap_pps(pps)
    for k, pp in pps.planning_problem_dict.items():
        lan = pp.goal.lanelets_of_goal_position
        p[str(k)]["goal_lanelet_table"] = ("s", "None" if lan is None else "%s:%r" % (
            type(lan).__name__, sorted((kk, list(v)) for kk, v in lan.items())))
        p[str(k)]["goal_state_attribute_names"] = [("s", ",".join(g.attributes)) for g in pp.goal.state_list]
    return {"scenario": s, "pps": p}


def export(sc, pps, fmt, d, name):
    path = os.path.join(d, name)
    w = CommonRoadFileWriter(sc, pps, "a", "b", "c", {Tag.URBAN}, file_format=FileFormat.XML if fmt == "xml"
                             else FileFormat.PROTOBUF)
    with contextlib.redirect_stdout(io.StringIO()):
        w.write_to_file(path, OverwriteExistingFile.ALWAYS)
    with open(path, "rb") as f:
        data = f.read()
    if fmt == "xml":
        root = etree.fromstring(data)
        root.attrib.pop("date", None)
        return etree.tostring(root)
    from crverif.props.c15 import normalise
    return normalise(data, "pb")


def run_op(op, sc, pps, r, d):
    ts = r["times"]
    if op == "occupancies":
        for o in sc.obstacles:
            for t in ts:
                o.occupancy_at_time(t)
    elif op == "states":
        for o in sc.obstacles:
            if hasattr(o, "state_at_time") and o.obstacle_role in (ObstacleRole.DYNAMIC, ObstacleRole.STATIC):
                for t in ts:
                    o.state_at_time(t)
    elif op == "scenario-queries":
        for t in ts:
            sc.occupancies_at_time_step(t)
            sc.obstacle_states_at_time_step(t)
            sc.obstacles_by_position_intervals([Interval(-50, 50), Interval(-50, 50)], (
                ObstacleRole.DYNAMIC, ObstacleRole.STATIC, ObstacleRole.ENVIRONMENT, ObstacleRole.Phantom), t)
        sc.obstacles_by_role_and_type(ObstacleRole.DYNAMIC)
    elif op == "lookups":
        net = sc.lanelet_network
        pts = [np.array(la.center_vertices[0]) for la in net.lanelets]
        net.find_lanelet_by_position(pts)
        net.find_lanelet_by_shape(gg.build_shape({"k": "rect", "l": 4.0, "w": 2.0, "c": list(map(float, pts[0])),
                                                  "o": 0.3}))
        net.map_obstacles_to_lanelets([o for o in sc.obstacles if isinstance(o, (StaticObstacle, DynamicObstacle))
                                       and o.initial_state.time_step == 0 and not o.initial_state.is_uncertain_position
                                       and not o.initial_state.is_uncertain_orientation])
        net.lanelets_in_proximity(np.array(pts[0], dtype=float), 15.0)
        from commonroad.scenario.state import KSState
        try:
            net.find_most_likely_lanelet_by_state([KSState(time_step=0, position=np.array(p_, dtype=float), orientation=0.3)
                                                   for p_ in pts[:3]])
        except Exception:
            pass
        for la in net.lanelets:
            la.dynamic_obstacle_by_time_step(0), la.dynamic_obstacle_by_time_step(1)
    elif op == "lanelet-geometry":
        for la in sc.lanelet_network.lanelets:
            dd = la.distance
            la.interpolate_position(float(dd[-1]) / 2)
            la.find_lanelet_successors_in_range(sc.lanelet_network, 30.0)
            la.polygon
            la.inner_distance
    elif op == "merge-queries":
        # queries that build merged lanelets out of the network's lanelets (the inputs are only read)
        from commonroad.scenario.lanelet import Lanelet
        net = sc.lanelet_network
        for la in net.lanelets:
            Lanelet.all_lanelets_by_merging_successors_from_lanelet(la, net, 60.0)
            Lanelet.all_lanelets_by_merging_predecessors_from_lanelet(la, net, 60.0)
            for s in la.successor:
                other = net.find_lanelet_by_id(s)
                if other is not None:
                    Lanelet.merge_lanelets(la, other)
    elif op == "traffic-lights":
        for tl in sc.lanelet_network.traffic_lights:
            for t in ts:
                tl.get_state_at_time_step(t)
    elif op == "goal-check":
        for pp in pps.planning_problem_dict.values():
            pp.goal.is_reached(pp.initial_state)
            pp.goal_reached(Trajectory(pp.initial_state.time_step, [pp.initial_state]))
            # the states of the scenario's obstacles are checked as well (kinematic, point-mass, multi-body, custom)
            for o in sc.dynamic_obstacles:
                pred = o.prediction
                states = [o.initial_state] + (list(pred.trajectory.state_list[:3]) if hasattr(pred, "trajectory") else [])
                for s_ in states:
                    try:
                        pp.goal.is_reached(s_)
                    except Exception:   # e.g. the documented ValueError for states lacking a constrained attribute
                        pass
                if hasattr(pred, "trajectory"):
                    try:
                        pp.goal_reached(pred.trajectory)
                    except Exception:
                        pass
    elif op == "eq":
        sc == sc
        pps == pps
        for o in sc.obstacles:
            o == o
        sc.lanelet_network == sc.lanelet_network
        # comparisons with distinct but equal objects (identity short-cuts do not apply) and with different ones
        other, other_pps = build(r)
        sc == other, other == sc, pps == other_pps, sc != other
        for a, b in zip(sc.obstacles, other.obstacles):
            a == b
        for a, b in zip(sc.obstacles, reversed(other.obstacles)):
            a == b
    elif op == "hash":
        for x in list(sc.obstacles) + list(sc.lanelet_network.lanelets) + [sc.lanelet_network, sc, pps]:
            try:
                hash(x)
            except TypeError:
                pass
    elif op == "copy":
        copy.copy(sc)
        copy.copy(pps)
    elif op == "deepcopy":
        copy.deepcopy(sc)
        copy.deepcopy(pps)
        copy.deepcopy(sc.lanelet_network)
    elif op == "pickle":
        pickle.loads(pickle.dumps(sc))
        pickle.loads(pickle.dumps(pps))
    elif op == "str":
        str(sc)
        repr(sc)
        for x in list(sc.obstacles) + list(sc.lanelet_network.lanelets):
            str(x)
            repr(x)
    elif op == "write-xml":
        export(sc, pps, "xml", d, "w.xml")
    elif op == "write-pb":
        export(sc, pps, "pb", d, "w.pb")
    elif op == "render":
        from commonroad.visualization.mp_renderer import MPRenderer
        import matplotlib
        fig = matplotlib.figure.Figure(figsize=(2.4, 2.0), dpi=40)
        ax = fig.add_subplot(111)
        rnd = MPRenderer(ax=ax)
        sc.draw(rnd)
        pps.draw(rnd)
        rnd.render()
        fig.canvas.draw()
        # a second frame with everything that is off by default switched on (signs, labels, icons, trajectories, ...)
        from commonroad.visualization.draw_params import MPDrawParams
        mp = MPDrawParams()
        mp.lanelet_network.traffic_sign.draw_traffic_signs = True
        mp.lanelet_network.traffic_sign.show_label = True
        mp.lanelet_network.traffic_light.draw_traffic_lights = True
        mp.lanelet_network.intersection.draw_intersections = True
        mp.lanelet_network.lanelet.show_label = True
        mp.dynamic_obstacle.show_label = True
        mp.dynamic_obstacle.draw_icon = True
        mp.dynamic_obstacle.draw_signals = True
        mp.dynamic_obstacle.trajectory.draw_trajectory = True
        mp.dynamic_obstacle.occupancy.draw_occupancies = True
        mp.time_begin, mp.time_end = 1, 6
        sc.draw(rnd, mp)
        pps.draw(rnd, mp)
        rnd.render()
        fig.canvas.draw()


def build(r):
    sc = gs.build_scenario(r["sc"])
    pps_list = []
    for i, p in enumerate(r["sc"]["pps"]):
        goal = p["goal"]
        states = [gg.build_state(s) for s in goal["states"]]
        lan = goal.get("lanelets")
        mode = r["goal_table"]
        if lan:
            table = {int(k): list(v) for k, v in lan.items()}
            if mode == "defaultdict":
                dd = defaultdict(list)
                dd.update(table)
                table = dd
            g = GoalRegion(states, table)
        elif mode == "defaultdict-empty" and False:
            g = GoalRegion(states, defaultdict(list))
        else:
            g = GoalRegion(states)
        pps_list.append(PlanningProblem(p["id"], gg.build_state(p["init"]), g))
    return sc, PlanningProblemSet(pps_list)


def check(r, ctx):
    d = tempfile.mkdtemp(prefix="crverif-c18-")
    try:
        with warnings.catch_warnings():
            warnings.simplefilter("ignore")
            sc, pps = build(r)
            if r.get("assign"):
                # part of the construction: the obstacles are registered on the lanelets they occupy
                try:
                    sc.assign_obstacles_to_lanelets()
                    ctx.label("obstacles-assigned-to-lanelets")
                except Exception as e:   # uncertain states etc.: C07's domain, not a mutation question
                    ctx.label("assignment-raised:" + type(e).__name__)
            plain = deep_snapshot(sc, pps, queries=False)
            before = deep_snapshot(sc, pps)
            # taking the full snapshot asks queries (light states, index lookups): they only read - the attributes are
            # as before, and a second full snapshot is identical
            diffs = sn.compare(plain, deep_snapshot(sc, pps, queries=False), lambda p: 0) or sn.compare(
                before, deep_snapshot(sc, pps), lambda p: 0)
            if diffs:
                raise Violation("mutated-by:observation:%s" % sn.strip_indices(diffs[0][0]),
                                "reading the observables: %s: %r -> %r" % diffs[0])
            exports = {}
            for fmt in r["export"]:
                try:
                    exports[fmt] = export(sc, pps, fmt, d, "before." + fmt)
                except Exception:
                    exports[fmt] = None
            after_exp = deep_snapshot(sc, pps)
            diffs = sn.compare(before, after_exp, lambda p: 0)
            if diffs:
                raise Violation("mutated-by:export-%s:%s" % ("+".join(r["export"]), sn.strip_indices(diffs[0][0])),
                                "%s: %r -> %r" % diffs[0])
            for op in r["ops"]:
                try:
                    run_op(op, sc, pps, r, d)
                except Exception as e:   # not a mutation; owned by another property
                    ctx.label("op-raised:%s:%s" % (op, type(e).__name__))
                now = deep_snapshot(sc, pps)
                diffs = sn.compare(before, now, lambda p: 0)
                if diffs:
                    raise Violation("mutated-by:%s:%s" % (op, sn.strip_indices(diffs[0][0])),
                                    "after %s: %s: %r -> %r (%d differences)" % (op, diffs[0][0], diffs[0][1],
                                                                                 diffs[0][2], len(diffs)))
                ctx.label("op-" + op)
            for fmt, data in exports.items():
                if data is None:
                    continue
                try:
                    again = export(sc, pps, fmt, d, "after." + fmt)
                except Exception:
                    continue
                if again != data:
                    i = next((k for k, (x, y) in enumerate(zip(again, data)) if x != y), min(len(again), len(data)))
                    raise Violation("export-changed-%s" % fmt, "after %r the %s export differs at byte %d: %r vs %r" % (
                        r["ops"], fmt, i, data[i:i + 80], again[i:i + 80]))
    finally:
        shutil.rmtree(d, ignore_errors=True)
    interesting = {"occupancies", "write-pb", "write-xml", "deepcopy", "pickle", "render"} & set(r["ops"])
    has_custom = any(o.get("pred") and o["pred"]["k"] == "traj" and o["pred"]["traj"]["states"][0]["cls"] ==
                     "CustomState" and "orientation" not in o["pred"]["traj"]["states"][0]["a"]
                     for o in r["sc"]["obstacles"])
    has_lan = any(p["goal"].get("lanelets") for p in r["sc"]["pps"])
    if has_custom:
        ctx.label("scenario-has-orientationless-trajectory")
    if has_lan:
        ctx.label("scenario-has-goal-lanelets")
    if interesting and (has_custom or has_lan or len(r["ops"]) >= 3):
        ctx.nontrivial()


@st.composite
def s_case(draw, tier=None, ops=None, max_ops=6):
    from crverif.gen.pbprofile import pb_profile_base
    base, pbp = fp.xml_profile_base(), pb_profile_base()
    extra = {"time_of_day": [], "weather": [], "underground": [], "tags": sorted(set(base["tags"]) & set(pbp["tags"])),
             "pb_sign_filter": True, "custom_extra": fp.PB_CUSTOM_EXTRA, "min_types": 0}
    sc = draw(fp.file_scenario("xml", max_lanelets=4, max_obstacles=4, max_pps=2, min_pps=1, decimals=4,
                               extra_profile=extra))
    # enrich: a speed-limit sign with two additional values (its label is converted to km/h or mph when it is drawn)
    if sc["signs"] and draw(st.integers(0, 2)) == 0:
        el = sc["signs"][0]["elements"][0]
        if "MAX_SPEED" in [m.name for m in gs.sign_enum_class(el["country"])]:
            sc["signs"][0]["elements"][0] = dict(el, name="MAX_SPEED", values=["13.89", "30"])
            sc["signs"][0]["virtual"] = False
    # enrich: a fork - one lanelet gets a second successor (listed in ascending id order)
    if len(sc["lanelets"]) >= 3 and draw(st.booleans()):
        for la in sc["lanelets"]:
            if len(la["succ"]) == 1:
                others = sorted(l["id"] for l in sc["lanelets"] if l["id"] not in (la["id"], la["succ"][0]))
                if others:
                    extra_id = others[-1]
                    la["succ"] = sorted(list(la["succ"]) + [extra_id])
                    for l in sc["lanelets"]:
                        if l["id"] == extra_id:
                            l["pred"] = sorted(list(l["pred"]) + [la["id"]])
                    break
    # enrich: a closed course - the last lanelet of a chain leads back into its first one (roundabout ring)
    if len(sc["lanelets"]) >= 2 and draw(st.integers(0, 3)) == 0:
        by_id = {l["id"]: l for l in sc["lanelets"]}
        heads = [l for l in sc["lanelets"] if not l["pred"] and l["succ"]]
        if heads:
            first = heads[0]
            last = first
            seen = {first["id"]}
            while last["succ"] and last["succ"][0] in by_id and last["succ"][0] not in seen:
                last = by_id[last["succ"][0]]
                seen.add(last["id"])
            if last is not first:
                last["succ"] = list(last["succ"]) + [first["id"]]
                first["pred"] = list(first["pred"]) + [last["id"]]
    # enrich: trajectory of custom states with (velocity, velocity_y) and no orientation attribute
    if draw(st.booleans()):
        n = draw(st.integers(1, 4))
        states = [{"cls": "CustomState", "t": 1 + k, "a": {"position": draw(gg.point(100)),
                                                           "velocity": draw(st.floats(0.5, 20)),
                                                           "velocity_y": draw(st.floats(-5, 5))}} for k in range(n)]
        sc["obstacles"].append({"role": "dynamic", "id": 9990, "type": "CAR",
                                "shape": draw(gg.simple_shape(centered=True, oriented=False)),
                                "init": draw(gg.exact_state("InitialState", 0)),
                                "pred": {"k": "traj", "traj": {"t0": 1, "states": states}}})
    # goal lanelet tables that cover only some goal states arise naturally (file_planning_problem); table flavour:
    return {"sc": sc, "goal_table": draw(st.sampled_from(["dict", "defaultdict"])),
            "ops": draw(st.lists(st.sampled_from(ops or OPS), min_size=1, max_size=max_ops)),
            "times": draw(st.lists(st.integers(0, 8), min_size=1, max_size=3)),
            "export": draw(st.sampled_from([["xml"], ["pb"], ["xml", "pb"], []])),
            "assign": draw(st.booleans())}


NO_RENDER = [o for o in OPS if o != "render"]

FACETS = [
    Facet("sequences", check, strategy=lambda tier: s_case(ops=NO_RENDER, max_ops=8), quick=1200, thorough=60000,
          rule="1-8 read-only operations (occupancy / state / scenario queries, lanelet lookups and geometry, traffic "
               "lights, goal checks, ==, hash, copy, deepcopy, pickle, str/repr, write XML, write protobuf) on "
               "file-expressible scenarios enriched with orientation-less custom trajectories and default-dict / "
               "partial goal-lanelet tables; non-trivial = sequence contains occupancy / writer / deepcopy / pickle and "
               "the scenario has the structure that makes it matter (or >= 3 operations)"),
    Facet("with-render", check, strategy=lambda tier: s_case(ops=["render", "occupancies", "write-xml", "deepcopy"],
                                                             max_ops=3), quick=150, thorough=5000,
          rule="sequences containing draw + render on the Agg backend"),
]
