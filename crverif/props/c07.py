"""C07 - obstacle-lanelet assignment is geometrically correct and invertible."""
import os
import shutil
import tempfile
import warnings

import numpy as np
from hypothesis import strategies as st

from commonroad.common.file_reader import CommonRoadFileReader
from commonroad.common.file_writer import CommonRoadFileWriter, OverwriteExistingFile
from commonroad.common.util import FileFormat
from commonroad.planning.planning_problem import PlanningProblemSet
from commonroad.prediction.prediction import TrajectoryPrediction
from commonroad.scenario.obstacle import DynamicObstacle, StaticObstacle
from commonroad.scenario.scenario import Scenario, Tag

from crverif.core import Facet, Violation
from crverif.gen import fileprofile as fp
from crverif.gen import geometry as gg
from crverif.gen import scenario as gs
from crverif.gen.values import angle
from crverif.oracle import geom
from crverif.props import c06

RULE = ("brute-force truth from raw vertices per obstacle and time step: centre set = lanelets containing the centre, "
        "shape set = lanelets intersecting place(shape, state); registries compared as the whole inverse relation")
ASSUMPTIONS = ["static obstacles and dynamic obstacles with a trajectory prediction (consecutive steps from t0+1) or none; "
               "exact states; single shapes rectangle / circle / polygon in the obstacle convention",
               "use_center_only=True is a documented alternative mode and not subjected to the shape-inverse check",
               "boundary band as in C06; circle obstacles are attributed to the recorded half-radius finding when the "
               "answer matches a disc of half the radius",
               "file route: initial time step 0, dynamic obstacles with trajectory (XML) / trajectory or none (protobuf), prediction "
               "shape equal to the obstacle shape (the readers evaluate the initial step of the prediction table with the "
               "prediction shape, which only coincides with the initial occupancy for equal shapes)"]

KNOWN_CIRCLE = c06.KNOWN_CIRCLE


@st.composite
def obstacle(draw, oid, net, t0=None, allow_none=True, pred_shape=True):
    role = draw(st.sampled_from(["static", "dynamic", "dynamic"]))
    # a polygon need not be placed around the origin: its reference point (the state's position) can lie outside it
    off_poly = st.tuples(st.floats(-8, 8), st.floats(-8, 8)).flatmap(
        lambda c: gg.star_polygon(center=[c[0], c[1]], rmin=0.3, rmax=3.0))
    shape = draw(st.one_of(gg.rectangle(centered=True, free_orientation=False), gg.circle(centered=True),
                           gg.polygon(centered=True), off_poly))
    t0 = draw(st.integers(0, 3)) if t0 is None else t0
    spec = draw(c06.point_spec())
    p = c06.point_from_spec(net, spec)
    init = {"cls": "InitialState", "t": t0, "a": {"position": p, "orientation": draw(angle()), "velocity": 1.0,
                                                  "acceleration": 0.0, "yaw_rate": 0.0, "slip_angle": 0.0}}
    ob = {"role": role, "id": oid, "type": "PARKED_VEHICLE" if role == "static" else "CAR", "shape": shape,
          "init": init}
    if role == "dynamic" and (not allow_none or draw(st.integers(0, 3)) > 0):
        n = draw(st.integers(1, 4))
        states = []
        prev = p
        for k in range(n):
            # a standing vehicle keeps its position (exactly) while it may still turn
            pos = prev if draw(st.integers(0, 3)) == 0 else c06.point_from_spec(net, draw(c06.point_spec()))
            prev = pos
            states.append({"cls": "KSState", "t": t0 + 1 + k, "a": {
                "position": list(pos), "steering_angle": 0.0, "velocity": 1.0, "orientation": draw(angle())}})
        ob["pred"] = {"k": "traj", "traj": {"t0": t0 + 1, "states": states}}
        if pred_shape and draw(st.integers(0, 2)) == 0:
            # a prediction may carry its own shape (e.g. inflated by a safety margin)
            ob["pred"]["shape"] = draw(st.one_of(gg.rectangle(centered=True, free_orientation=False),
                                                 gg.circle(centered=True), gg.polygon(centered=True)))
    return ob


def truth_for(ob, rings, scale, halved=False):
    """{t: (center_must, center_may, shape_must, shape_may)} over the obstacle's horizon."""
    out = {}
    states = [ob["init"]]
    if ob.get("pred"):
        states += ob["pred"]["traj"]["states"]
    for k, s in enumerate(states):
        p, th = s["a"]["position"], s["a"]["orientation"]
        cm, cy = set(), set()
        for lid, ring in rings.items():
            inside, d = geom.point_in_polygon(p, ring)
            if d < 1e-9 * scale:
                cy.add(lid)
            elif inside:
                cm.add(lid)
        shape = ob["shape"] if k == 0 or not ob["pred"].get("shape") else ob["pred"]["shape"]
        g = gg.place(shape, p, th)
        if halved:
            g = c06.halve_circles(g)
        sm, sy = c06.lookup_truth(g, rings)
        out[s["t"]] = (cm, cy, sm, sy)
    return out


def recorded(o):
    """{t: (center set, shape set)} as recorded on the obstacle object (None where nothing is recorded)."""
    t0 = o.initial_state.time_step
    rec = {t0: (o.initial_center_lanelet_ids, o.initial_shape_lanelet_ids)}
    p = getattr(o, "prediction", None)
    if isinstance(p, TrajectoryPrediction):
        for s in p.trajectory.state_list:
            c = None if p.center_lanelet_assignment is None else p.center_lanelet_assignment.get(s.time_step)
            sh = None if p.shape_lanelet_assignment is None else p.shape_lanelet_assignment.get(s.time_step)
            rec[s.time_step] = (c, sh)
        # the initial time step is recorded in the prediction tables as well (when present there it must agree)
        for tab, idx in ((p.center_lanelet_assignment, 0), (p.shape_lanelet_assignment, 1)):
            if tab is not None and t0 in tab and rec[t0][idx] is not None and set(tab[t0]) != set(rec[t0][idx]):
                raise Violation("initial-assignment-inconsistent", "t0=%d: initial ids %r, prediction table %r" % (
                    t0, rec[t0][idx], tab[t0]))
    return rec


def check_assignment(sc, obstacles, rings, ctx, tag, only_ids=None, registry=True):
    scale = 1 + max(abs(x) for ring in rings.values() for p in ring for x in p)
    circle_excuse = False
    inverse_static = {lid: set() for lid in rings}
    inverse_dynamic = {lid: {} for lid in rings}
    nontrivial = False
    for ob in obstacles:
        o = sc.obstacle_by_id(ob["id"])
        if o is None:
            raise Violation(tag + "obstacle-missing", "obstacle %d" % ob["id"])
        rec = recorded(o)
        assigned = only_ids is None or ob["id"] in only_ids
        tr = truth_for(ob, rings, scale)
        has_circle = ob["shape"]["k"] == "circle" or ((ob.get("pred") or {}).get("shape") or {}).get("k") == "circle"
        trh = truth_for(ob, rings, scale, halved=True) if has_circle else None
        for t, (cm, cy, sm, sy) in tr.items():
            c, sh = rec.get(t, (None, None))
            if not assigned:
                continue
            if c is None or sh is None:
                raise Violation(tag + "assignment-not-recorded-" + ob["role"], "obstacle %d t=%d: center %r shape %r"
                                % (ob["id"], t, c, sh))
            if not (cm <= set(c) <= cm | cy):
                raise Violation(tag + "center-set-" + ob["role"], "obstacle %d t=%d: recorded %r, truth %r (band %r)" % (
                    ob["id"], t, sorted(c), sorted(cm), sorted(cy)))
            if not (sm <= set(sh) <= sm | sy):
                detail = "obstacle %d (%s) t=%d: recorded %r, truth %r (band %r)" % (
                    ob["id"], ob["shape"]["k"], t, sorted(sh), sorted(sm), sorted(sy))
                if trh is not None and trh[t][2] <= set(sh) <= trh[t][2] | trh[t][3]:
                    circle_excuse = detail
                else:
                    raise Violation(tag + "shape-set-" + ob["role"], detail)
            if set(sh) - set(c):
                nontrivial = True
        # inverse relation from what is RECORDED (the registry must be its exact inverse)
        for t, (c, sh) in rec.items():
            if sh is None:
                continue
            for lid in sh:
                if lid not in rings:
                    raise Violation(tag + "assignment-to-unknown-lanelet", "obstacle %d -> %r" % (ob["id"], lid))
                if ob["role"] == "static":
                    inverse_static[lid].add(ob["id"])
                else:
                    inverse_dynamic[lid].setdefault(t, set()).add(ob["id"])
        if len({frozenset(v[1] or ()) for v in rec.values()}) > 1:
            nontrivial = True
    for la in (sc.lanelet_network.lanelets if registry else []):
        lid = la.lanelet_id
        if set(la.static_obstacles_on_lanelet) != inverse_static[lid]:
            raise Violation(tag + "static-registry-not-inverse", "lanelet %d: registry %r, inverse of the shape "
                            "assignment %r" % (lid, sorted(la.static_obstacles_on_lanelet), sorted(inverse_static[lid])))
        reg = {t: set(v) for t, v in la.dynamic_obstacles_on_lanelet.items() if v}
        inv = {t: v for t, v in inverse_dynamic[lid].items() if v}
        if reg != inv:
            raise Violation(tag + "dynamic-registry-not-inverse", "lanelet %d: registry %r, inverse %r" % (
                lid, sorted((t, sorted(v)) for t, v in reg.items()), sorted((t, sorted(v)) for t, v in inv.items())))
    return nontrivial, circle_excuse


# ------------------------------------------------------------------------------------------------ assign facet
@st.composite
def s_assign(draw, tier=None):
    net = gs.maybe_twin(draw, draw(gs.network_recipe(max_lanelets=6)))
    obs = [draw(obstacle(500 + i, net)) for i in range(draw(st.integers(1, 5)))]
    subset = draw(st.one_of(st.none(), st.lists(st.sampled_from([o["id"] for o in obs]), min_size=1, unique=True)))
    return {"net": net, "obs": obs, "subset": subset, "order": draw(st.sampled_from(["network-first",
                                                                                     "obstacles-first"])),
            "explicit_times": draw(st.sampled_from([False, False, True]))}


def build_scenario(net, obs, order="network-first"):
    sc = Scenario(0.1)
    if order == "obstacles-first":
        for o in obs:
            sc.add_objects(gs.build_obstacle(o))
    for l in net["lanelets"]:
        sc.add_objects(gs.build_lanelet(l))
    if order != "obstacles-first":
        for o in obs:
            sc.add_objects(gs.build_obstacle(o))
    return sc


def check_assign(r, ctx):
    net, obs = r["net"], r["obs"]
    rings = c06.rings_of(net)
    with warnings.catch_warnings():
        warnings.simplefilter("ignore")
        sc = build_scenario(net, obs, r["order"])
        kw = {}
        if r.get("explicit_times"):
            # the scenario-wide list of time steps (it starts before and ends after some obstacles' horizons)
            last = max([s["t"] for o in obs for s in [o["init"]] + (o["pred"]["traj"]["states"] if o.get("pred") else [])])
            kw["time_steps"] = list(range(0, last + 2))
            ctx.label("explicit-time-steps")
        if r["subset"] is None:
            sc.assign_obstacles_to_lanelets(**kw)
        else:
            sc.assign_obstacles_to_lanelets(obstacle_ids=set(r["subset"]), **kw)
        nt, excuse = check_assignment(sc, obs, rings, ctx, "", None if r["subset"] is None else set(r["subset"]))
        # removal of contained obstacles never fails and leaves no trace in the registries
        for o in obs:
            sc.remove_obstacle(sc.obstacle_by_id(o["id"]))
        for la in sc.lanelet_network.lanelets:
            left = set(la.static_obstacles_on_lanelet) | set().union(*[set(v) for v in
                                                                        la.dynamic_obstacles_on_lanelet.values()] or [set()])
            if left:
                raise Violation("registry-after-removal", "lanelet %d still lists %r" % (la.lanelet_id, sorted(left)))
    if excuse:
        raise Violation(KNOWN_CIRCLE, "shape set matches a disc of HALF the radius; " + excuse)
    for o in obs:
        ctx.label("%s-%s-%s" % (o["role"], o["shape"]["k"], "traj" if o.get("pred") else "nopred"))
    ctx.label("order-" + r["order"])
    if nt:
        ctx.nontrivial()


# ------------------------------------------------------------------------------------------------ file facet
@st.composite
def s_file(draw, tier=None):
    net = c06.round_net(gs.maybe_twin(draw, draw(gs.network_recipe(max_lanelets=5, profile={"min_types": 1}))))
    fmt = draw(st.sampled_from(["xml", "pb"]))
    obs = []
    for i in range(draw(st.integers(1, 4))):
        ob = draw(obstacle(500 + i, net, t0=0, allow_none=(fmt == "pb"), pred_shape=False))
        # exactly representable at the writer precision
        for s in [ob["init"]] + (ob["pred"]["traj"]["states"] if ob.get("pred") else []):
            s["a"]["position"] = [round(s["a"]["position"][0], 4), round(s["a"]["position"][1], 4)]
            s["a"]["orientation"] = max(-6.2831, min(6.2831, round(s["a"]["orientation"], 4)))
        for sh in [ob["shape"]] + ([ob["pred"]["shape"]] if ob.get("pred") and ob["pred"].get("shape") else []):
            if sh["k"] == "poly":
                sh["v"] = [[round(p[0], 4), round(p[1], 4)] for p in sh["v"]]
        obs.append(ob)
    return {"net": net, "obs": obs, "fmt": fmt}


def check_file(r, ctx):
    net, obs, fmt = r["net"], r["obs"], r["fmt"]
    c06.require_simple(net, ctx)
    rings = c06.rings_of(net)
    d = tempfile.mkdtemp(prefix="crverif-c07-")
    try:
        with warnings.catch_warnings():
            warnings.simplefilter("ignore")
            sc = build_scenario(net, obs)
            ff = FileFormat.XML if fmt == "xml" else FileFormat.PROTOBUF
            path = os.path.join(d, "s" + ff.value)
            CommonRoadFileWriter(sc, PlanningProblemSet(), "a", "b", "c", {Tag.URBAN}, file_format=ff).write_to_file(
                path, OverwriteExistingFile.ALWAYS)
            sc2, _ = CommonRoadFileReader(path, file_format=ff).open(lanelet_assignment=True)
            # polygons are rotated about their centroid by the library: after rounding the centroid is only
            # approximately the origin, so the reference uses the rounded vertices as they are
            nt, excuse = check_assignment(sc2, obs, rings, ctx, "file-%s-" % fmt)
            for o in obs:
                sc2.remove_obstacle(sc2.obstacle_by_id(o["id"]))
    finally:
        shutil.rmtree(d, ignore_errors=True)
    if excuse:
        raise Violation(KNOWN_CIRCLE, "shape set matches a disc of HALF the radius; " + excuse)
    ctx.label("fmt-" + fmt)
    for o in obs:
        ctx.label("%s-%s-%s" % (o["role"], o["shape"]["k"], "traj" if o.get("pred") else "nopred"))
    if nt:
        ctx.nontrivial()


# ------------------------------------------------------------------------------------------------ histories
@st.composite
def s_history(draw, tier=None):
    net = gs.maybe_twin(draw, draw(gs.network_recipe(max_lanelets=4)))
    extra = draw(gs.network_recipe(ids=gs.Ids([800 + i for i in range(30)]), max_lanelets=2))
    pool = [draw(obstacle(500 + i, net)) for i in range(draw(st.integers(2, 5)))]
    op = st.one_of(
        st.tuples(st.just("add"), st.integers(0, 4), st.booleans()),
        st.tuples(st.just("assign"), st.one_of(st.none(), st.lists(st.integers(0, 4), min_size=1, max_size=3))),
        st.tuples(st.just("assign"), st.none()),
        st.tuples(st.just("remove"), st.integers(0, 4)),
        st.tuples(st.just("remove-list"), st.lists(st.integers(0, 4), min_size=1, max_size=3, unique=True)),
        st.tuples(st.just("add-lanelet"), st.integers(0, 1)))
    # life cycles (add, assign, remove, re-add, assign again) mixed with free operations
    cycle = st.tuples(st.integers(0, 4), st.booleans()).map(lambda t: [
        ["add", t[0], False], ["assign", None if t[1] else [t[0]]], ["remove", t[0]], ["add", t[0], False],
        ["assign", [t[0]]]])
    chunks = draw(st.lists(st.one_of(op.map(lambda o: [list(o)]), op.map(lambda o: [list(o)]), cycle), min_size=2,
                           max_size=8))
    return {"net": net, "extra": extra["lanelets"], "pool": pool, "ops": [o for ch in chunks for o in ch][:24]}


def check_history(r, ctx):
    net, pool = r["net"], r["pool"]
    lanelets = list(net["lanelets"])
    with warnings.catch_warnings():
        warnings.simplefilter("ignore")
        sc = Scenario(0.1)
        for l in lanelets:
            sc.add_objects(gs.build_lanelet(l))
        inside = {}
        assigned = set()
        stale = set()          # assigned before a lanelet was added: the recorded sets are allowed to be outdated
        seq = []
        extra_used = 0
        excuse = False
        for op in r["ops"]:
            kind = op[0]
            if kind == "add":
                ob = pool[op[1] % len(pool)]
                if ob["id"] in inside:
                    ctx.label("op-skipped")
                    continue
                rec = dict(ob)
                if op[2]:
                    # pre-set lanelet ids that are TRUE for the current network (a consistent object)
                    rings = {l["id"]: gg.lanelet_ring(l) for l in lanelets}
                    scale = 1 + max(abs(x) for ring in rings.values() for p in ring for x in p)
                    tr = truth_for(ob, rings, scale)
                    t0 = ob["init"]["t"]
                    if any(v[1] or v[3] for v in tr.values()) or ob["shape"]["k"] == "circle" or ob.get("pred"):
                        ctx.label("op-skipped")
                        continue
                    rec["center_lanelets"], rec["shape_lanelets"] = sorted(tr[t0][0]), sorted(tr[t0][2])
                    assigned.add(ob["id"])
                sc.add_objects(gs.build_obstacle(rec))
                inside[ob["id"]] = ob
            elif kind == "assign":
                if not inside:
                    ctx.label("op-skipped")
                    continue
                ids = None if op[1] is None else {pool[i % len(pool)]["id"] for i in op[1]} & set(inside)
                if ids is not None and not ids:
                    ctx.label("op-skipped")
                    continue
                # re-assignment of an already assigned obstacle after the network changed is not in the domain
                target = (set(inside) if ids is None else ids) - assigned
                if not target:
                    ctx.label("op-skipped")
                    continue
                if ids is None and target == set(inside):
                    sc.assign_obstacles_to_lanelets()
                else:
                    sc.assign_obstacles_to_lanelets(obstacle_ids=set(target))
                assigned |= target
            elif kind in ("remove", "remove-list"):
                idx = [op[1]] if kind == "remove" else op[1]
                objs = [sc.obstacle_by_id(pool[i % len(pool)]["id"]) for i in idx if pool[i % len(pool)]["id"] in inside]
                objs = list({o.obstacle_id: o for o in objs}.values())
                if not objs:
                    ctx.label("op-skipped")
                    continue
                if kind == "remove":
                    sc.remove_obstacle(objs[0])
                    gone = [objs[0].obstacle_id]
                else:
                    sc.remove_obstacle(objs)
                    gone = [o.obstacle_id for o in objs]
                for g in gone:
                    inside.pop(g)
                    assigned.discard(g)
                    stale.discard(g)
            elif kind == "add-lanelet":
                if extra_used >= len(r["extra"]):
                    ctx.label("op-skipped")
                    continue
                l = dict(r["extra"][extra_used], pred=[], succ=[])
                for k in ("adj_left", "adj_right", "adj_left_same", "adj_right_same"):
                    l.pop(k, None)
                extra_used += 1
                sc.add_objects(gs.build_lanelet(l))
                lanelets.append(l)
                stale |= assigned
            seq.append(kind)
            ctx.label("op-" + kind)
            # invariant: registries mention only contained obstacles and are the inverse of the recorded assignment;
            # obstacles assigned on the current network are geometrically right
            rings = {l["id"]: gg.lanelet_ring(l) for l in lanelets}
            fresh = [o for i, o in inside.items() if i in assigned and i not in stale]
            others = [o for i, o in inside.items() if not (i in assigned and i not in stale)]
            nt, ex = check_assignment(sc, fresh, rings, ctx, "history-", registry=False)
            excuse = excuse or ex
            check_registry_only(sc, list(inside.values()), "history-")
    if excuse:
        raise Violation(KNOWN_CIRCLE, "shape set matches a disc of HALF the radius; " + excuse)
    s = " ".join(seq)
    if "assign" in seq and ("remove" in s) and seq.index("assign") < len(seq) - 1:
        ctx.nontrivial()


def check_registry_only(sc, obstacles, tag):
    ids = {o["id"] for o in obstacles}
    inv_s, inv_d = {}, {}
    for ob in obstacles:
        o = sc.obstacle_by_id(ob["id"])
        for t, (c, sh) in recorded(o).items():
            for lid in (sh or ()):
                if ob["role"] == "static":
                    inv_s.setdefault(lid, set()).add(ob["id"])
                else:
                    inv_d.setdefault(lid, {}).setdefault(t, set()).add(ob["id"])
    for la in sc.lanelet_network.lanelets:
        lid = la.lanelet_id
        reg_s = set(la.static_obstacles_on_lanelet)
        if reg_s - ids:
            raise Violation(tag + "registry-lists-removed-obstacle", "lanelet %d: %r" % (lid, sorted(reg_s - ids)))
        if reg_s != inv_s.get(lid, set()):
            raise Violation(tag + "static-registry-not-inverse", "lanelet %d: registry %r, inverse %r" % (
                lid, sorted(reg_s), sorted(inv_s.get(lid, set()))))
        reg = {t: set(v) for t, v in la.dynamic_obstacles_on_lanelet.items() if v}
        for t, v in reg.items():
            if v - ids:
                raise Violation(tag + "registry-lists-removed-obstacle", "lanelet %d t=%d: %r" % (lid, t, sorted(v - ids)))
        inv = {t: v for t, v in inv_d.get(lid, {}).items() if v}
        if reg != inv:
            raise Violation(tag + "dynamic-registry-not-inverse", "lanelet %d: registry %r, inverse %r" % (
                lid, sorted((t, sorted(v)) for t, v in reg.items()), sorted((t, sorted(v)) for t, v in inv.items())))


FACETS = [
    Facet("assign", check_assign, strategy=s_assign, quick=1500, thorough=80000,
          rule="1-6 lanelets x 1-5 static / dynamic (trajectory or none) obstacles with rect / circle / polygon shapes "
               "placed inside / on boundaries / outside near; assign all or a subset; network added before or after the "
               "obstacles; then every obstacle is removed; non-trivial = some shape set strictly contains its centre set "
               "or the sets change over time"),
    Facet("file-open", check_file, strategy=s_file, quick=600, thorough=30000,
          rule="same scenarios written to XML / protobuf and opened with lanelet_assignment=True"),
    Facet("histories", check_history, strategy=s_history, quick=800, thorough=25000,
          rule="3-14 steps of add obstacle (with or without pre-set, true lanelet ids) / assign (all or subset) / remove "
               "(single, list) / add lanelet / re-add; invariant after every step: registries list only contained "
               "obstacles and are the exact inverse of the recorded shape assignment; non-trivial = assign followed by a "
               "removal"),
]
