"""Shared machinery of the file properties (C01 XML round trip, C02 protobuf round trip, C03 XSD validity)."""
import os

import numpy as np
import shutil
import tempfile
import warnings

from commonroad.common.file_reader import CommonRoadFileReader
from commonroad.common.file_writer import CommonRoadFileWriter, OverwriteExistingFile
from commonroad.common.util import FileFormat
from commonroad.scenario.scenario import Tag

from crverif import snapshot as sn
from crverif.core import Violation
from crverif.gen import scenario as gs

INITIAL_FIELDS = ["position", "orientation", "velocity", "acceleration", "yaw_rate", "slip_angle"]


def writer_args(r):
    """Header values the writer is given (None => the scenario's own) and the effective header."""
    m, w = r.get("meta") or {}, r["writer"]
    use_own = r.get("use_scenario_meta", False)
    args, eff = {}, {}
    for k in ("author", "affiliation", "source"):
        if use_own and m.get(k) is not None:
            args[k], eff[k] = None, m[k]
        else:
            args[k], eff[k] = w[k], w[k]
    if use_own and m.get("tags") is not None:
        args["tags"], eff["tags"] = None, sorted(m["tags"])
    else:
        args["tags"], eff["tags"] = {Tag[t] for t in w["tags"]}, sorted(w["tags"])
    return args, eff


def reassign_polygon_rings(sc, pps):
    """Every polygon of obstacles, occupancy sets and goal regions gets its own vertex ring re-assigned through the
    public ``vertices`` setter WITHOUT the closing vertex (the constructor accepts open rings, so does the setter);
    returns the number of polygons touched."""
    from commonroad.geometry.shape import Polygon, ShapeGroup
    from commonroad.prediction.prediction import SetBasedPrediction, TrajectoryPrediction
    n = 0

    def visit(sh):
        nonlocal n
        if isinstance(sh, Polygon):
            v = np.asarray(sh.vertices, dtype=float)
            if len(v) >= 4 and np.array_equal(v[0], v[-1]):
                sh.vertices = v[:-1].copy()
                n += 1
        elif isinstance(sh, ShapeGroup):
            for m in sh.shapes:
                visit(m)
    for o in sc.obstacles:
        if hasattr(o, "obstacle_shape"):
            visit(o.obstacle_shape)
        p = getattr(o, "prediction", None)
        if isinstance(p, SetBasedPrediction):
            for oc in p.occupancy_set:
                visit(oc.shape)
        elif isinstance(p, TrajectoryPrediction):
            visit(p.shape)
    for pp in pps.planning_problem_dict.values():
        for st_ in pp.goal.state_list:
            if hasattr(st_, "position"):
                visit(st_.position)
    return n


def write_file(r, fmt, path, sc=None, pps=None, decimals=None):
    """Writes the recipe. Optional recipe keys: "decoy" = [format, decimals] - another writer (for a tiny other
    scenario) is constructed between the construction and the use of the writer under test; "reuse" = True - the
    writer first writes the scenario part to a side file and then the full file (a reused writer object);
    "reuse" = "edited" - the scenario was in a different state (lanelet types, left bounds) at the time of that first write."""
    sc = sc if sc is not None else gs.build_scenario(r)
    pps = pps if pps is not None else gs.build_pps(r["pps"])
    args, _ = writer_args(r)
    if r.get("open_rings"):
        reassign_polygon_rings(sc, pps)
    if r.get("pre_use"):
        # the scenario has been in ordinary read-only use before it is written (queries fill whatever is memoised)
        try:
            hash(sc), sc == sc
            for t in (0, 1, 2, 5):
                sc.occupancies_at_time_step(t)
                for o in sc.obstacles:
                    o.occupancy_at_time(t)
                    if hasattr(o, "state_at_time"):
                        o.state_at_time(t)
            for la in sc.lanelet_network.lanelets:
                la.polygon, la.distance, la.inner_distance
            pts = [la.center_vertices[0] for la in sc.lanelet_network.lanelets]
            if pts:
                sc.lanelet_network.find_lanelet_by_position(pts)
            for tl in sc.lanelet_network.traffic_lights:
                tl.get_state_at_time_step(3)
            for pp in pps.planning_problem_dict.values():
                pp.goal.is_reached(pp.initial_state)
        except Exception:   # a query failing is the business of the property that owns the query
            pass
    ff = FileFormat.XML if fmt == "xml" else FileFormat.PROTOBUF
    w = CommonRoadFileWriter(sc, pps, args["author"], args["affiliation"], args["source"], args["tags"],
                             decimal_precision=decimals if decimals is not None else r.get("decimals", 4),
                             file_format=ff)
    if r.get("decoy"):
        from commonroad.planning.planning_problem import PlanningProblemSet
        from commonroad.scenario.scenario import Scenario
        dfmt, dd = r["decoy"]
        CommonRoadFileWriter(Scenario(0.1), PlanningProblemSet(), "x", "y", "z", {Tag.URBAN}, decimal_precision=dd,
                             file_format=FileFormat.XML if dfmt == "xml" else FileFormat.PROTOBUF)
    import contextlib
    import io
    with contextlib.redirect_stdout(io.StringIO()):
        if r.get("reuse") == "edited":
            # the writer has already written an earlier state of its scenario: lanelet types and left bounds are
            # changed through their public setters for the side write and set back to the recipe's values afterwards
            saved = [(la, la.lanelet_type, la.left_vertices) for la in sc.lanelet_network.lanelets]
            for la, _, left in saved:
                la.lanelet_type = set()
                la.left_vertices = left + 0.25
            w.write_scenario_to_file(path + ".side", OverwriteExistingFile.ALWAYS)
            for la, types, left in saved:
                la.lanelet_type = types
                la.left_vertices = left
        elif r.get("reuse") == "full":
            # the complete file (scenario and planning problems) is written twice by the same writer
            w.write_to_file(path + ".side", OverwriteExistingFile.ALWAYS)
        elif r.get("reuse"):
            w.write_scenario_to_file(path + ".side", OverwriteExistingFile.ALWAYS)
        w.write_to_file(path, OverwriteExistingFile.ALWAYS)
    return sc, pps


def _edit_loaded(sc, pps):
    from commonroad.geometry.shape import Circle, Polygon, Rectangle, ShapeGroup

    def edit(sh):
        if isinstance(sh, Rectangle):
            sh.length = float(sh.length) * 2.0 + 1.0
            sh.center = np.asarray(sh.center, dtype=float) + 3.0
        elif isinstance(sh, Circle):
            sh.radius = float(sh.radius) * 2.0 + 1.0
        elif isinstance(sh, Polygon):
            sh.vertices = np.asarray(sh.vertices, dtype=float) + 3.0
        elif isinstance(sh, ShapeGroup):
            for m in sh.shapes:
                edit(m)
    for o in sc.obstacles:
        if hasattr(o, "obstacle_shape"):
            edit(o.obstacle_shape)
        p = getattr(o, "prediction", None)
        for oc in getattr(p, "_occupancy_set", None) or []:
            edit(oc.shape)
        if p is not None and hasattr(p, "shape") and p.shape is not None:
            edit(p.shape)
    for la in sc.lanelet_network.lanelets:
        la.lanelet_type = set()
    for pp in pps.planning_problem_dict.values():
        for st_ in pp.goal.state_list:
            if hasattr(st_, "position"):
                edit(st_.position)
        lan = pp.goal.lanelets_of_goal_position
        if lan:
            for k in list(lan):
                lan[k] = list(lan[k]) + [424242]


def la_domain(r):
    """Lanelet assignment while reading is defined (C07) for static obstacles and dynamic obstacles with a trajectory
    prediction or none, with exact positions and orientations."""
    def exact(s):
        a = s["a"]
        return (isinstance(a.get("position"), list) and len(a["position"]) == 2 and
                all(isinstance(x, (int, float)) for x in a["position"]) and
                isinstance(a.get("orientation"), (int, float)))
    for o in r["obstacles"]:
        if o["role"] not in ("static", "dynamic"):
            continue
        if not exact(o["init"]) or o["shape"]["k"] == "group":      # (find_lanelet_by_shape asserts a single shape)
            return False
        p = o.get("pred")
        if p is not None and (p.get("shape") or {}).get("k") == "group":
            return False
        if p is not None and (p["k"] != "traj" or not all(exact(s) for s in p["traj"]["states"])):
            return False
    return True


def roundtrip(r, fmt):
    d = tempfile.mkdtemp(prefix="crverif-io-")
    try:
        path = os.path.join(d, "s.xml" if fmt == "xml" else "s.pb")
        write_file(r, fmt, path)
        with open(path, "rb") as f:
            data = f.read()
        ff = FileFormat.XML if fmt == "xml" else FileFormat.PROTOBUF
        # "read_la": the file is opened with lanelet assignment; everything the file states must read back the same
        if r.get("read_twice"):
            # the file is read, the loaded objects are edited in place (they belong to the caller), and the file is
            # read again: the second reading is what the file says
            first_sc, first_pps = CommonRoadFileReader(path, file_format=ff).open()
            _edit_loaded(first_sc, first_pps)
        sc2, pps2 = CommonRoadFileReader(path, file_format=ff).open(lanelet_assignment=bool(r.get("read_la")) and la_domain(r))
        if r.get("network_only"):
            # the reader's second entry point: only the lanelet network of the file
            # ... asked of a reader object that has already opened the whole file (and whose first result has been
            # edited by its owner in the meantime)
            reader0 = CommonRoadFileReader(path, file_format=ff)
            first_sc, _ = reader0.open()
            first_sc.translate_rotate(np.array([5.0, -3.0]), 0.3)
            net_only = reader0.open_lanelet_network()
            a, b = sn.snap_network(sc2.lanelet_network), sn.snap_network(net_only)
            diffs = sn.compare(a, b, lambda p: 0)
            if diffs:
                raise Violation("open-lanelet-network-differs:" + sn.strip_indices(diffs[0][0]),
                                "open_lanelet_network() vs open(): %s: %r vs %r" % diffs[0])
        return data, sc2, pps2
    finally:
        shutil.rmtree(d, ignore_errors=True)


def fill_initial_defaults(state_snap):
    """unset attributes of initial states read back as 0 (the reader's documented default)."""
    if not isinstance(state_snap, dict):
        return state_snap
    for f in INITIAL_FIELDS:
        if f not in state_snap["attrs"]:
            state_snap["attrs"][f] = {"kind": ("s", "exact"), "v": ("ang", 0.0) if f == "orientation" else ("r", 0.0)}
    return state_snap


def expected(r, fmt):
    with warnings.catch_warnings():
        warnings.simplefilter("ignore")
        sc = gs.build_scenario(r)
        pps = gs.build_pps(r["pps"])
    s = sn.snap_scenario(sc)
    p = sn.snap_pps(pps)
    _, eff = writer_args(r)
    s["author"], s["affiliation"], s["source"] = ("s", eff["author"]), ("s", eff["affiliation"]), ("s", eff["source"])
    s["tags"] = ("set", eff["tags"])
    if r.get("location") is None:
        from commonroad.scenario.scenario import Location
        s["location"] = sn.snap_location(Location())
    for o in s["obstacles"].values():
        if "initial_state" in o:
            fill_initial_defaults(o["initial_state"])
    for q in p.values():
        fill_initial_defaults(q["initial_state"])
    if fmt == "xml" and r.get("_untyped_lanelets"):
        # outside C01's domain (the schema demands a lanelet type): the XML writer documents 'unknown' for a lanelet
        # without type. Only used by checks that need such lanelets for another reason (C15).
        for la in s["network"]["lanelets"].values():
            if la["lanelet_type"] == ("set", []):
                la["lanelet_type"] = ("set", ["UNKNOWN"])
    return s, p


def prune(snap, fmt):
    """Content the format cannot carry (documented): XML has no sign first_occurrence."""
    if fmt == "xml":
        for sg in snap["network"]["traffic_signs"].values():
            sg.pop("first_occurrence", None)
    return snap


def relax_classes(exp, got):
    """State class identity is only demanded for specific (non-custom) classes: 'fully populated states of a
    specific class read back as that class'. For CustomState originals the class is removed on both sides."""
    def walk(a, b):
        if isinstance(a, dict) and isinstance(b, dict):
            if "cls" in a and a["cls"] == ("s", "CustomState") and "cls" in b:
                a.pop("cls")
                b.pop("cls")
            for k in a:
                if k in b:
                    walk(a[k], b[k])
        elif isinstance(a, list) and isinstance(b, list):
            for x, y in zip(a, b):
                walk(x, y)
    walk(exp, got)


def compare_roundtrip(r, fmt, sc2, pps2, tol):
    exp_s, exp_p = expected(r, fmt)
    got_s, got_p = sn.snap_scenario(sc2), sn.snap_pps(pps2)
    prune(exp_s, fmt)
    prune(got_s, fmt)
    relax_classes(exp_s, got_s)
    relax_classes(exp_p, got_p)
    diffs = sn.compare(exp_s, got_s, tol, "scenario") + sn.compare(exp_p, got_p, tol, "pps")
    return diffs


KNOWN_VIRTUAL = "known:xml-sign-virtual-lost"


def is_known_virtual(d):
    path, a, b = d
    return path.endswith("/virtual") and a == ("b", True) and b == ("b", False)


def raise_first(diffs, prefix="", fmt=None):
    if fmt == "xml":
        other = [d for d in diffs if not is_known_virtual(d)]
        if not other and diffs:
            path, a, b = diffs[0]
            raise Violation(KNOWN_VIRTUAL, "%s: written %r, read back %r; everything else of this case round-trips" % (
                path, a, b))
        diffs = other
    if diffs:
        path, a, b = diffs[0]
        raise Violation(prefix + sn.strip_indices(path), "%s: written %r, read back %r (%d differences; next: %s)" % (
            path, a, b, len(diffs), [d[0] for d in diffs[1:4]]))
