"""C04 - obstacle occupancy is the shape placed at the state, for every time step."""
import math
import warnings

import numpy as np
from hypothesis import strategies as st

from commonroad.common.util import Interval
from commonroad.scenario.obstacle import ObstacleRole, ObstacleType

from crverif.core import Facet, Violation
from crverif.gen import geometry as gg
from crverif.gen import scenario as gs
from crverif.gen.values import TWO_PI, angle
from crverif.oracle import geom

RULE = "reference occupancy computed from the recipe: place(shape, position, theta) / stored occupancy / None"
ASSUMPTIONS = [
    "obstacle-shape convention: rectangle/circle centred at the origin, polygon centroid at the origin, shape-group "
    "members concentric (both readings of 'rotated and moved' coincide)",
    "consecutive trajectory time steps (documented precondition of Trajectory)",
    "shape group x uncertain state excluded (explicit ValueError in the library)",
    "position-interval filter: shape-group occupancies are don't-cares (the API includes every shape without a "
    "'center' attribute); positions within 1e-9 of an interval end are a band",
    "point-mass states at rest have no heading and are not generated",
    "tolerance 1e-9*(1+scale)"]


def theta_of(state):
    a = state["a"]
    if "orientation" in a:
        return a["orientation"]
    return math.atan2(a["velocity_y"], a["velocity"])


def horizon(ob):
    """dict t -> ('state', state recipe) | ('occ', occupancy recipe) for every t with an occupancy; t0; last."""
    role = ob["role"]
    out = {}
    if role in ("static", "environment"):
        return None
    if role == "phantom":
        for o in ob["pred"]["occ"]:
            ts = [o["t"]] if isinstance(o["t"], int) else range(o["t"]["iv"][0], o["t"]["iv"][1] + 1)
            for t in ts:
                out.setdefault(t, ("occ", o))
        return out
    t0 = ob["init"]["t"]
    out[t0] = ("state", ob["init"])
    p = ob.get("pred")
    if p is not None and p["k"] == "traj":
        for s in p["traj"]["states"]:
            if s["t"] > t0:
                out[s["t"]] = ("state", s)
    elif p is not None:
        for o in p["occ"]:
            ts = [o["t"]] if isinstance(o["t"], int) else range(o["t"]["iv"][0], o["t"]["iv"][1] + 1)
            for t in ts:
                if t > t0:
                    out.setdefault(t, ("occ", o))
    return out


def expected_occupancy(ob, t):
    """geometry dict or None."""
    role = ob["role"]
    if role == "environment":
        return gg.shape_geo(ob["shape"])
    if role == "static":
        s = ob["init"]
        return gg.place(ob["shape"], s["a"]["position"], theta_of(s))
    h = horizon(ob)
    if t not in h:
        return None
    kind, x = h[t]
    if kind == "occ":
        return gg.shape_geo(x["shape"])
    return gg.place(ob["shape"], x["a"]["position"], theta_of(x))


def expected_state(ob, t):
    if ob["role"] == "static":
        return ob["init"]
    if ob["role"] != "dynamic":
        return None
    h = horizon(ob)
    if t in h and h[t][0] == "state":
        return h[t][1]
    return None


def times_of(ob):
    h = horizon(ob)
    if h is None:
        return list(range(0, 6))
    lo, hi = min(h), max(h)
    return [t for t in range(lo - 3, hi + 4) if t >= 0]


def check_obstacle_object(ob, obj, ctx, tag=""):
    nt = False
    scale = 1.0
    for t in times_of(ob):
        exp = expected_occupancy(ob, t)
        with warnings.catch_warnings():
            warnings.simplefilter("ignore")
            occ = obj.occupancy_at_time(t)
        if exp is None:
            if occ is not None:
                raise Violation(tag + "occupancy-outside-horizon", "%s obstacle: occupancy at t=%d is %r" % (
                    ob["role"], t, occ))
            ctx.label("t-outside-horizon")
        else:
            if occ is None:
                raise Violation(tag + "occupancy-missing", "%s obstacle: no occupancy at t=%d" % (ob["role"], t))
            got = gg.lib_shape_geo(occ.shape)
            tol = 1e-9 * (1 + gg.geo_scale_of(exp))
            d = gg.same_geo(got, exp, tol)
            if d:
                raise Violation(tag + "occupancy-geometry-" + ob["role"], "t=%d: %s" % (t, d))
            d = gg.vertices_agree(occ.shape, tol)
            if d:
                raise Violation(tag + "occupancy-vertices-" + ob["role"], "t=%d: %s" % (t, d))
            ot = occ.time_step
            if isinstance(ot, Interval):
                if not (ot.start <= t <= ot.end):
                    raise Violation(tag + "occupancy-time", "t=%d not in %r" % (t, (ot.start, ot.end)))
            elif ot != t:
                raise Violation(tag + "occupancy-time", "asked t=%d, occupancy says %r" % (t, ot))
        if ob["role"] in ("static", "dynamic"):
            es = expected_state(ob, t)
            with warnings.catch_warnings():
                warnings.simplefilter("ignore")
                s = obj.state_at_time(t)
            if es is None:
                if s is not None:
                    raise Violation(tag + "state-outside-horizon", "state at t=%d: %r" % (t, s))
            else:
                if s is None:
                    raise Violation(tag + "state-missing", "no state at t=%d" % t)
                if ob["role"] == "dynamic" and s.time_step != t:
                    raise Violation(tag + "state-time-step", "asked t=%d, got state of time step %r" % (t, s.time_step))
                p = np.asarray(s.position, dtype=float)
                ep = es["a"]["position"]
                if abs(p[0] - ep[0]) > 1e-9 * (1 + abs(ep[0])) or abs(p[1] - ep[1]) > 1e-9 * (1 + abs(ep[1])):
                    raise Violation(tag + "state-pairing", "t=%d: position %r, recipe %r" % (t, p.tolist(), ep))
        h = horizon(ob)
        if h is not None and (t in (min(h), max(h)) or t in (min(h) - 1, max(h) + 1)):
            nt = True
    return nt


def has_rest_pm(ob):
    def rest(s):
        a = s["a"]
        return "orientation" not in a and math.hypot(a.get("velocity", 1.0), a.get("velocity_y", 0.0)) < 1e-3
    p = ob.get("pred")
    if p and p["k"] == "traj":
        return any(rest(s) for s in p["traj"]["states"])
    return False


def rigid_geo(g, t, a):
    if g["k"] == "circle":
        return {"k": "circle", "c": geom.rigid(g["c"], t, a), "r": g["r"]}
    if g["k"] == "poly":
        return {"k": "poly", "v": [geom.rigid(p, t, a) for p in g["v"]]}
    return {"k": "group", "m": [rigid_geo(m, t, a) for m in g["m"]]}


def _off_centre(sh):
    if sh["k"] == "group":
        return any(_off_centre(m) for m in sh["m"])
    if sh["k"] == "poly":
        return max(abs(x) for x in geom.polygon_centroid(sh["v"])) > 1e-9
    return sh.get("c") is not None and any(abs(x) > 0 for x in sh["c"])


def check_obstacle(r, ctx):
    ob = r
    if has_rest_pm(ob):
        ctx.discard("point-mass state at rest")
    obj = gs.build_obstacle(ob)
    nt = check_obstacle_object(ob, obj, ctx)
    off_centre = ob.get("shape") is not None and ob["role"] in ("static", "dynamic") and _off_centre(ob["shape"])
    if off_centre:
        ctx.label("shape-with-own-centre-offset")
    if ob.get("_motion"):
        # metamorphic: the queries above have filled every cache; after a rigid motion of the obstacle each occupancy
        # must be the rigid image of the occupancy before (same horizon)
        t, a = ob["_motion"]
        with warnings.catch_warnings():
            warnings.simplefilter("ignore")
            if times_of(ob):
                obj.occupancy_at_time(times_of(ob)[0])   # the very time step that is asked for first after the motion
            obj.translate_rotate(np.array(t, dtype=float), a)
            for ts in times_of(ob):
                exp = expected_occupancy(ob, ts)
                occ = obj.occupancy_at_time(ts)
                if (exp is None) != (occ is None):
                    raise Violation("moved-occupancy-presence", "t=%d after translate_rotate: %r" % (ts, occ))
                if exp is None:
                    continue
                e2 = rigid_geo(exp, t, a)
                if off_centre and not (ob["role"] == "dynamic" and horizon(ob)[ts][0] == "occ"):
                    # an own centre offset is not rotated about the origin: the occupancy is the shape placed at the
                    # MOVED state (what a freshly built obstacle with the moved state has)
                    st_ = ob["init"] if ob["role"] == "static" else horizon(ob)[ts][1]
                    e2 = gg.place(ob["shape"], geom.rigid(st_["a"]["position"], t, a), theta_of(st_) + a)
                d = gg.same_geo(gg.lib_shape_geo(occ.shape), e2, 1e-8 * (1 + gg.geo_scale_of(e2) + abs(t[0]) + abs(t[1])))
                if d:
                    raise Violation("moved-occupancy-geometry-" + ob["role"], "t=%d after translate_rotate(%r, %r): %s"
                                    % (ts, t, a, d))
                es = expected_state(ob, ts) if ob["role"] in ("static", "dynamic") else None
                if es is not None and isinstance(es["a"].get("position"), list):
                    # the state returned for ts is the moved state (it was queried before the motion)
                    got = obj.state_at_time(ts)
                    want = geom.rigid(es["a"]["position"], t, a)
                    if got is None or got.time_step != es["t"] or geom.dist(list(map(float, got.position)), want) > \
                            1e-8 * (1 + abs(want[0]) + abs(want[1])):
                        raise Violation("moved-state-" + ob["role"], "t=%d after translate_rotate(%r, %r): state %r, "
                                        "expected position %r" % (ts, t, a, got, want))
        ctx.label("with-motion")
    if ob.get("_reassign") and ob["role"] in ("static", "dynamic") and not ob.get("_update") and not ob.get("_motion"):
        # a simulation loop advances ONE state object: the obstacle's own initial state is edited in place and handed
        # back through the public setter; the occupancy at the initial time step follows
        new_p, new_o = ob["_reassign"]
        with warnings.catch_warnings():
            warnings.simplefilter("ignore")
            s_obj = obj.initial_state
            if isinstance(getattr(s_obj, "position", None), np.ndarray) and isinstance(getattr(s_obj, "orientation",
                                                                                                  None), (int, float)):
                s_obj.position = np.array(new_p, dtype=float)
                s_obj.orientation = new_o
                obj.initial_state = s_obj
                t0 = ob["init"]["t"]
                occ = obj.occupancy_at_time(t0)
                exp = gg.place(ob["shape"], new_p, new_o)
                if occ is None:
                    raise Violation("reassigned-state-occupancy-missing", "t=%d" % t0)
                d = gg.same_geo(gg.lib_shape_geo(occ.shape), exp, 1e-9 * (1 + gg.geo_scale_of(exp)))
                if d:
                    raise Violation("reassigned-state-occupancy-" + ob["role"], "the obstacle's own state object was "
                                    "edited in place and assigned again: %s" % d)
                ctx.label("same-state-object-reassigned")
    if ob.get("_update") and ob["role"] == "dynamic":
        # the obstacle receives a new initial state through the public updater: from then on the occupancy at the new
        # initial time step is the shape placed at that state, and (the prediction being invalidated) None elsewhere
        new = ob["_update"]
        with warnings.catch_warnings():
            warnings.simplefilter("ignore")
            obj.update_initial_state(gg.build_state(new))
            t_new = new["t"]
            exp = gg.place(ob["shape"], new["a"]["position"], new["a"]["orientation"])
            if ob.get("_motion"):
                pass   # the new state is given in world coordinates, independent of the earlier motion
            for ts in range(max(0, t_new - 2), t_new + 3):
                occ = obj.occupancy_at_time(ts)
                if ts != t_new:
                    if occ is not None:
                        raise Violation("updated-occupancy-outside-horizon", "t=%d after update_initial_state(t=%d)" % (
                            ts, t_new))
                    continue
                if occ is None:
                    raise Violation("updated-occupancy-missing", "no occupancy at the new initial time step %d" % t_new)
                d = gg.same_geo(gg.lib_shape_geo(occ.shape), exp, 1e-9 * (1 + gg.geo_scale_of(exp)))
                if d:
                    raise Violation("updated-occupancy-geometry", "after update_initial_state: %s" % d)
                st_ = obj.state_at_time(ts)
                if st_ is None or st_.time_step != t_new:
                    raise Violation("updated-state", "state at the new initial time step: %r" % st_)
        ctx.label("with-update-initial-state")
    ctx.label("role-" + ob["role"])
    p = ob.get("pred")
    if p:
        ctx.label("pred-" + p["k"])
        if p["k"] == "traj":
            ctx.label("cls-" + p["traj"]["states"][0]["cls"])
            off = p["traj"]["t0"] - ob["init"]["t"]
            ctx.label("traj-start-offset-%d" % off)
    th = None
    if ob["role"] in ("static", "dynamic"):
        th = theta_of(ob["init"])
    if nt or (th is not None and abs(math.remainder(th, math.pi / 2)) > 1e-6):
        ctx.nontrivial()


def s_obstacle(tier):
    custom_traj = st.tuples(st.integers(0, 3), st.integers(1, 6)).flatmap(
        lambda t: st.lists(st.fixed_dictionaries({"position": gg.point(100), "velocity": gg.scalar_value(),
                                                  "velocity_y": gg.scalar_value()}), min_size=t[1], max_size=t[1]).map(
            lambda ss: {"t0": t[0] + 1, "states": [{"cls": "CustomState", "t": t[0] + 1 + k, "a": a}
                                                   for k, a in enumerate(ss)], "init_t": t[0]}))

    def custom(t):
        traj, shape, init = t
        init = dict(init, t=traj["init_t"])
        return {"role": "dynamic", "id": 3, "type": "CAR", "shape": shape, "init": init,
                "pred": {"k": "traj", "traj": {"t0": traj["t0"], "states": traj["states"]}}}
    custom_ob = st.tuples(custom_traj, gg.any_shape(centered=True), gg.exact_state("InitialState", 0)).map(custom)
    from crverif.gen.values import translation
    motion = st.one_of(st.none(), st.none(), st.tuples(translation(100), angle()).map(list))
    update = st.one_of(st.none(), st.integers(0, 12).flatmap(lambda t: gg.exact_state("InitialState", t)))
    # shapes with an own centre offset: placed as rotate_translate_local documents (rotation about the shape's centre)
    off = {"shape": gg.any_shape(centered=False), "roles": ["static", "dynamic", "dynamic"]}
    return st.tuples(st.one_of(gs.obstacle_recipe(7), gs.obstacle_recipe(7, role="dynamic"), custom_ob,
                               gs.obstacle_recipe(7, profile=off)), motion,
                     update, st.one_of(st.none(), st.tuples(gg.point(100), angle()).map(list))).map(
        lambda t: dict(t[0], _motion=t[1], _update=t[2], _reassign=t[3]))


# ------------------------------------------------------------------------------------------- uncertain enclosure
def s_uncertain(tier):
    shape = st.one_of(gg.rectangle(centered=True, free_orientation=False), gg.circle(centered=True),
                      gg.polygon(centered=True))
    region = st.one_of(st.none(), gg.rectangle(), gg.circle(), gg.polygon())
    ori = st.one_of(angle(), st.tuples(st.floats(-TWO_PI, TWO_PI - 1.6), st.floats(0.0, math.pi / 2)).map(
        lambda t: {"ai": [t[0], t[0] + t[1]]}))
    return st.fixed_dictionaries({"shape": shape, "region": region, "ori": ori, "pos": gg.point(100),
                                  "role": st.sampled_from(["static", "dynamic"]),
                                  "samples": st.lists(st.tuples(st.floats(0, 1), st.floats(0, 1), st.floats(0, 1)),
                                                      min_size=3, max_size=8)}).filter(
        lambda r: r["region"] is not None or isinstance(r["ori"], dict))


def region_points(region, pos, samples):
    """Admissible positions: vertices / boundary / interior samples of the region (or the exact position)."""
    if region is None:
        return [pos]
    g = gg.shape_geo(region)
    pts = []
    if g["k"] == "circle":
        for (u, v, w) in samples:
            rr = g["r"] * (1.0 if u < 0.5 else math.sqrt(v))
            pts.append([g["c"][0] + rr * math.cos(TWO_PI * w), g["c"][1] + rr * math.sin(TWO_PI * w)])
        pts.append(list(g["c"]))
    else:
        vs = geom.open_ring(g["v"])
        pts.extend(vs)
        c = geom.polygon_centroid(vs)
        for (u, v, w) in samples:
            i = int(u * len(vs)) % len(vs)
            a, b = vs[i], vs[(i + 1) % len(vs)]
            e = [a[0] + v * (b[0] - a[0]), a[1] + v * (b[1] - a[1])]     # boundary point
            pts.append(e)
            pts.append([c[0] + w * (e[0] - c[0]), c[1] + w * (e[1] - c[1])])  # towards the centre (star-shaped)
    return pts


def check_uncertain(r, ctx):
    shape, region, ori = r["shape"], r["region"], r["ori"]
    a = {"position": {"shape": region} if region is not None else r["pos"], "orientation": ori, "velocity": 1.0,
         "acceleration": 0.0, "yaw_rate": 0.0, "slip_angle": 0.0}
    ob = {"role": r["role"], "id": 5, "type": "CAR", "shape": shape, "init": {"cls": "InitialState", "t": 0, "a": a}}
    obj = gs.build_obstacle(ob)
    occ = obj.occupancy_at_time(0)
    if occ is None:
        raise Violation("uncertain-occupancy-missing", "no occupancy at the initial time step")
    encl = gg.lib_shape_geo(occ.shape)
    if isinstance(ori, dict):
        s, e = ori["ai"]
        mid = 0.5 * (s + e)
        psis = [s, e, mid, s + 0.25 * (e - s), s + 0.75 * (e - s)]
        sg = gg.shape_geo(shape)
        if sg["k"] == "poly":
            xs = [p[0] for p in sg["v"]]
            ys = [p[1] for p in sg["v"]]
            l, w = max(xs) - min(xs), max(ys) - min(ys)
            for crit in (math.atan2(w, l), math.atan2(l, w)):
                for sign in (1, -1):
                    if s <= mid + sign * crit <= e:
                        psis.append(mid + sign * crit)
        for (u, v, w_) in r["samples"]:
            psis.append(s + u * (e - s))
    else:
        psis = [ori]
    scale = 1 + gg.geo_scale_of(encl)
    tol = 1e-9 * scale
    worst = 0.0
    for p in region_points(region, r["pos"], r["samples"]):
        for psi in psis:
            placed = gg.place(shape, p, psi)
            if placed["k"] == "circle":
                pts = [[placed["c"][0] + placed["r"] * math.cos(TWO_PI * k / 16),
                        placed["c"][1] + placed["r"] * math.sin(TWO_PI * k / 16)] for k in range(16)]
            else:
                pts = placed["v"]
            for q in pts:
                inside, d = geom.geo_contains_point(encl, q)
                if not inside and d > tol:
                    worst = max(worst, d)
                    raise Violation("uncertain-not-enclosed-%s-%s-%s" % (
                        shape["k"], "exact" if region is None else region["k"],
                        "ai" if isinstance(ori, dict) else "exact"),
                        "shape placed at %r, psi=%r: point %r lies %g outside the occupancy %r" % (p, psi, q, d, encl))
    ctx.label("shape-" + shape["k"])
    ctx.label("region-" + ("exact" if region is None else region["k"]))
    ctx.label("ori-" + ("interval" if isinstance(ori, dict) else "exact"))
    if (isinstance(ori, dict) and ori["ai"][1] - ori["ai"][0] > 0) or region is not None:
        ctx.nontrivial()


# ------------------------------------------------------------------------------------------- scenario-level queries
def s_scenario(tier):
    q = st.fixed_dictionaries({
        "t": st.lists(st.integers(0, 14), min_size=1, max_size=4),
        "role": st.sampled_from([None, "STATIC", "DYNAMIC", "ENVIRONMENT", "Phantom"]),
        "type": st.one_of(st.none(), st.sampled_from(gs.OBSTACLE_TYPES)),
        "ix": st.tuples(st.floats(-250, 250), st.floats(0, 300)), "iy": st.tuples(st.floats(-250, 250),
                                                                               st.floats(0, 300)),
        "roles": st.lists(st.sampled_from(["STATIC", "DYNAMIC", "ENVIRONMENT", "Phantom"]), min_size=1, max_size=4,
                          unique=True)})
    return st.tuples(gs.scenario_recipe(max_lanelets=2, max_obstacles=6, max_pps=0,
                                        profile={"signs_lights": False}), q).map(lambda t: {"sc": t[0], "q": t[1]})


ROLE_OF = {"static": "STATIC", "dynamic": "DYNAMIC", "environment": "ENVIRONMENT", "phantom": "Phantom"}


def geo_key(g, nd=6):
    if g["k"] == "circle":
        return ("c", round(g["c"][0], nd), round(g["c"][1], nd), round(g["r"], nd))
    if g["k"] == "poly":
        return ("p",) + tuple(sorted((round(p[0], nd), round(p[1], nd)) for p in geom.open_ring(g["v"])))
    return ("g",) + tuple(geo_key(m, nd) for m in g["m"])


def check_scenario(r, ctx):
    sc_r, q = r["sc"], r["q"]
    obs = sc_r["obstacles"]
    if any(has_rest_pm(o) for o in obs):
        ctx.discard("point-mass state at rest")
    with warnings.catch_warnings():
        warnings.simplefilter("ignore")
        sc = gs.build_scenario(sc_r)
        role = None if q["role"] is None else ObstacleRole[q["role"]]
        for t in q["t"]:
            # occupancies
            got = sc.occupancies_at_time_step(t, role)
            exp = []
            for o in obs:
                if q["role"] is not None and ROLE_OF[o["role"]] != q["role"]:
                    continue
                e = expected_occupancy(o, t)
                if e is not None:
                    exp.append(e)
            gk = sorted(geo_key(gg.lib_shape_geo(o.shape)) for o in got)
            ek = sorted(geo_key(e) for e in exp)
            if gk != ek:
                raise Violation("scenario-occupancies", "t=%d role=%s: %d occupancies, reference %d; %r vs %r" % (
                    t, q["role"], len(gk), len(ek), gk[:2], ek[:2]))
            # states
            gs_ = sc.obstacle_states_at_time_step(t)
            es = {o["id"]: expected_state(o, t) for o in obs if o["role"] in ("static", "dynamic")}
            es = {k: v for k, v in es.items() if v is not None}
            if set(gs_) != set(es):
                raise Violation("scenario-states-ids", "t=%d: ids %r, reference %r" % (t, sorted(gs_), sorted(es)))
            for k, v in es.items():
                p = np.asarray(gs_[k].position, dtype=float)
                if abs(p[0] - v["a"]["position"][0]) > 1e-9 * (1 + abs(p[0])) or abs(
                        p[1] - v["a"]["position"][1]) > 1e-9 * (1 + abs(p[1])):
                    raise Violation("scenario-states-pairing", "t=%d id=%d" % (t, k))
            # position intervals
            ix = Interval(q["ix"][0], q["ix"][0] + q["ix"][1])
            iy = Interval(q["iy"][0], q["iy"][0] + q["iy"][1])
            roles = tuple(ObstacleRole[x] for x in q["roles"])
            got_ids = sorted(o.obstacle_id for o in sc.obstacles_by_position_intervals([ix, iy], roles, t))
            must, may = set(), set()
            for o in obs:
                if ROLE_OF[o["role"]] not in q["roles"]:
                    continue
                e = expected_occupancy(o, t)
                if o["role"] == "static":
                    c = o["init"]["a"]["position"]
                elif e is None:
                    continue
                elif e["k"] == "group":
                    may.add(o["id"])
                    continue
                elif e["k"] == "circle":
                    c = e["c"]
                else:
                    c = geom.polygon_centroid(e["v"])
                dx = min(abs(c[0] - ix.start), abs(c[0] - ix.end))
                dy = min(abs(c[1] - iy.start), abs(c[1] - iy.end))
                if min(dx, dy) < 1e-9 * (1 + abs(c[0]) + abs(c[1])):
                    may.add(o["id"])
                    ctx.band_case()
                elif ix.start <= c[0] <= ix.end and iy.start <= c[1] <= iy.end:
                    must.add(o["id"])
            if not (must <= set(got_ids) <= (must | may)) or len(got_ids) != len(set(got_ids)):
                raise Violation("scenario-position-intervals", "t=%d roles=%r: got %r, required %r, allowed extra %r" % (
                    t, q["roles"], got_ids, sorted(must), sorted(may)))
            if must:
                ctx.label("position-filter-hit")
        # role and type
        otype = None if q["type"] is None else ObstacleType[q["type"]]
        got_ids = sorted(o.obstacle_id for o in sc.obstacles_by_role_and_type(role, otype))
        exp_ids = sorted(o["id"] for o in obs if (q["role"] is None or ROLE_OF[o["role"]] == q["role"]) and (
            q["type"] is None or o.get("type") == q["type"]))
        if q["type"] is not None and any(o["role"] == "phantom" for o in obs) and q["role"] in (None, "Phantom"):
            pass
        if got_ids != exp_ids:
            raise Violation("scenario-role-type", "role=%s type=%s: %r vs %r" % (q["role"], q["type"], got_ids, exp_ids))
    roles_present = {o["role"] for o in obs}
    ctx.label("n-roles-%d" % len(roles_present))
    some_none = any(expected_occupancy(o, t) is None for o in obs for t in q["t"])
    if len(roles_present) >= 2 and some_none:
        ctx.nontrivial()


FACETS = [
    Facet("obstacle", check_obstacle, strategy=s_obstacle, quick=6000, thorough=300000,
          rule="every role; convention shapes incl. groups; every state class incl. PM and custom (vx,vy); "
               "trajectories starting at t0+1 / t0 (overlap) / t0+2 (gap); set-based with exact and interval times; "
               "t from first-3 to last+3; non-trivial = t at or next to a horizon boundary or theta not a multiple "
               "of pi/2"),
    Facet("uncertain-enclosure", check_uncertain, strategy=s_uncertain, quick=4000, thorough=200000,
          rule="shape (rect/circle/polygon) x position region (rect/circle/polygon/exact) x orientation interval of "
               "length 0..pi/2 or exact; sampled admissible (p, psi) incl. interval ends, middle, critical angles; "
               "every vertex / boundary sample must lie in the occupancy; non-trivial = region or interval "
               "non-degenerate"),
    Facet("scenario-queries", check_scenario, strategy=s_scenario, quick=1500, thorough=60000,
          rule="scenarios with up to 6 obstacles of all roles x time steps x role/type/position-interval filters vs "
               "per-obstacle references (multisets keyed by geometry / ids); non-trivial = >= 2 roles and >= 1 "
               "obstacle without occupancy at a queried t"),
]
