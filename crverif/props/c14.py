"""C14 - solution files round-trip exactly and follow the solution schema."""
import datetime
import os
import warnings

import numpy as np
from hypothesis import strategies as st
from lxml import etree

import commonroad
from commonroad.common.solution import CommonRoadSolutionReader, CommonRoadSolutionWriter

from crverif.core import Facet, Violation
from crverif.gen import solutions as gs

RULE = ("writer.dump -> reader.fromstring compared with the recipe (float.hex), independent lxml decoding against an own "
        "copy of the documented element table, XSD validation for schema-defined trajectory kinds in schema order")
ASSUMPTIONS = ["finite values only", "processor names: printable ASCII, not the documented magic value 'auto'",
               "consecutive ascending time steps (Trajectory convention)", "years 1000..9999 (xs:dateTime 4-digit year)",
               "KST documents are not validated (the shipped schema does not define kstTrajectory); the KST hitch-angle "
               "element name is not checked independently"]

_XSD = os.path.join(os.path.dirname(commonroad.__file__), "scenario_definition", "xml_definition_files",
                    "CommonRoadSolution_schema.xsd")
_schema = None


def schema():
    global _schema
    if _schema is None:
        _schema = etree.XMLSchema(etree.parse(_XSD))
    return _schema


def expected_values(p):
    """attribute -> value list per state, straight from the recipe."""
    out = []
    for k, vals in enumerate(p["states"]):
        d = {"time_step": p["t0"] + k}
        i = 0
        for attr, _ in gs.DOC_FIELDS[p["kind"]]:
            if attr == "position":
                d[attr] = [vals[i], vals[i + 1]]
                i += 2
            else:
                d[attr] = vals[i]
                i += 1
        out.append(d)
    return out


def num_eq(written, read):
    return gs.same_number(written, read)


def compare_solution(r, back, tag):
    if [p.planning_problem_id for p in back.planning_problem_solutions] != [p["pp_id"] for p in r["pps"]]:
        raise Violation(tag + "pp-ids", "%r" % [p.planning_problem_id for p in back.planning_problem_solutions])
    if back.benchmark_id != gs.reference_benchmark_id(r):
        raise Violation(tag + "benchmark-id", "%r read back as %r" % (gs.reference_benchmark_id(r), back.benchmark_id))
    for p, bp in zip(r["pps"], back.planning_problem_solutions):
        if (bp.vehicle_model.name, bp.vehicle_type.value, bp.cost_function.name) != (p["model"], p["vtype"], p["cost"]):
            raise Violation(tag + "vehicle-or-cost", "planning problem %d: %r read back as %r" % (
                p["pp_id"], (p["model"], p["vtype"], p["cost"]),
                (bp.vehicle_model.name, bp.vehicle_type.value, bp.cost_function.name)))
        if bp.trajectory_type.name != p["kind"]:
            raise Violation(tag + "trajectory-type", "%s -> %s" % (p["kind"], bp.trajectory_type.name))
        if type(bp.trajectory.state_list[0]) is not gs.STATE_CLASS[p["kind"]]:
            raise Violation(tag + "state-class", "%s -> %s" % (p["kind"], type(bp.trajectory.state_list[0]).__name__))
        exp = expected_values(p)
        states = bp.trajectory.state_list
        if [s.time_step for s in states] != [e["time_step"] for e in exp]:
            raise Violation(tag + "time-steps", "%r vs %r" % ([s.time_step for s in states],
                                                              [e["time_step"] for e in exp]))
        if bp.trajectory.initial_time_step != p["t0"]:
            raise Violation(tag + "initial-time-step", "%r" % bp.trajectory.initial_time_step)
        for s, e in zip(states, exp):
            if set(s.used_attributes) != set(e):
                raise Violation(tag + "attributes", "%r vs %r" % (sorted(s.used_attributes), sorted(e)))
            for attr, v in e.items():
                got = getattr(s, attr)
                if attr == "time_step":
                    continue
                if attr == "position":
                    ok = len(got) == 2 and num_eq(v[0], got[0]) and num_eq(v[1], got[1])
                else:
                    ok = num_eq(v, got)
                if not ok:
                    raise Violation(tag + "value-" + ("position" if attr == "position" else "scalar"),
                                    "%s.%s written %r read %r" % (p["kind"], attr, v, got))
    ct = r["computation_time"]
    if (ct is None) != (back.computation_time is None) or (ct is not None and not num_eq(ct, back.computation_time)):
        raise Violation(tag + "computation-time", "%r -> %r" % (ct, back.computation_time))
    if back.processor_name != r["processor_name"]:
        raise Violation(tag + "processor-name", "%r -> %r" % (r["processor_name"], back.processor_name))
    if r["date"] is None:
        if back.date is not None:
            raise Violation(tag + "date", "None -> %r" % back.date)
    else:
        exp_date = datetime.datetime(*r["date"][:6])
        if back.date != exp_date:
            raise Violation(tag + "date", "%r -> %r" % (exp_date, back.date))


def independent_decode(r, doc):
    root = etree.fromstring(doc if isinstance(doc, bytes) else doc.encode("utf-8"))
    if root.tag != "CommonRoadSolution":
        raise Violation("doc-root", root.tag)
    trajs = [c for c in root if isinstance(c.tag, str)]
    if len(trajs) != len(r["pps"]):
        raise Violation("doc-trajectory-count", "%d vs %d" % (len(trajs), len(r["pps"])))
    for p, node in zip(r["pps"], trajs):
        if node.tag != gs.DOC_TRAJ_TAG[p["kind"]]:
            raise Violation("doc-trajectory-tag", "%s for %s" % (node.tag, p["kind"]))
        if node.get("planningProblem") != str(p["pp_id"]):
            raise Violation("doc-planning-problem", "%r" % node.get("planningProblem"))
        snodes = [c for c in node if isinstance(c.tag, str)]
        exp = expected_values(p)
        if len(snodes) != len(exp):
            raise Violation("doc-state-count", "%d vs %d" % (len(snodes), len(exp)))
        for sn, e in zip(snodes, exp):
            if sn.tag != gs.DOC_STATE_TAG[p["kind"]]:
                raise Violation("doc-state-tag", sn.tag)
            elems = {}
            for c in sn:
                if c.tag in elems:
                    raise Violation("doc-duplicate-element", c.tag)
                elems[c.tag] = c.text
            if int(elems.get("time", "-1")) != e["time_step"]:
                raise Violation("doc-time", "%r vs %r" % (elems.get("time"), e["time_step"]))
            n_expected = 1
            for attr, name in gs.DOC_FIELDS[p["kind"]]:
                if name is None:
                    n_expected += 1
                    continue
                names = name if isinstance(name, tuple) else (name,)
                vals = e[attr] if isinstance(name, tuple) else (e[attr],)
                for nm, v in zip(names, vals):
                    n_expected += 1
                    if nm not in elems:
                        raise Violation("doc-missing-element", "%s/%s" % (p["kind"], nm))
                    if not num_eq(v, float(elems[nm])):
                        raise Violation("doc-element-value", "%s/%s holds %r, state attribute %s = %r" % (
                            p["kind"], nm, elems[nm], attr, v))
            if len(elems) != n_expected:
                raise Violation("doc-extra-elements", "%s: %r" % (p["kind"], sorted(elems)))


def check_roundtrip(r, ctx):
    sol = gs.build_solution(r)
    doc = CommonRoadSolutionWriter(sol).dump(pretty=r["pretty"])
    with warnings.catch_warnings():
        warnings.simplefilter("ignore")
        back = CommonRoadSolutionReader.fromstring(doc)
    compare_solution(r, back, "")
    independent_decode(r, doc)
    if r.get("perm", 0) % 3 == 0:
        # the file-based entry points: write_to_file / open must give what dump / fromstring give
        import os
        import shutil
        import tempfile
        d = tempfile.mkdtemp(prefix="crverif-c14-")
        try:
            CommonRoadSolutionWriter(sol).write_to_file(output_path=d, filename="s.xml", overwrite=True,
                                                        pretty=r["pretty"])
            with warnings.catch_warnings():
                warnings.simplefilter("ignore")
                back_f = CommonRoadSolutionReader.open(os.path.join(d, "s.xml"))
            with open(os.path.join(d, "s.xml"), "rb") as f:
                doc_f = f.read()
        finally:
            shutil.rmtree(d, ignore_errors=True)
        compare_solution(r, back_f, "file-")
        independent_decode(r, doc_f)
        ctx.label("through-a-file")
    # derived listings of the solution object itself
    if list(sol.planning_problem_ids) != [p["pp_id"] for p in r["pps"]]:
        raise Violation("solution-planning-problem-ids", "%r vs %r" % (sol.planning_problem_ids,
                                                                      [p["pp_id"] for p in r["pps"]]))
    if [t.name for t in sol.trajectory_types] != [p["kind"] for p in r["pps"]]:
        raise Violation("solution-trajectory-types", "%r vs %r" % ([t.name for t in sol.trajectory_types],
                                                                  [p["kind"] for p in r["pps"]]))
    r2 = gs.apply_edit(sol, r)
    if r2 is not None:
        # the same Solution object is edited after it has been written once, and written again
        doc2 = CommonRoadSolutionWriter(sol).dump(pretty=r["pretty"])
        with warnings.catch_warnings():
            warnings.simplefilter("ignore")
            back_e = CommonRoadSolutionReader.fromstring(doc2)
        compare_solution(r2, back_e, "after-edit-")
        independent_decode(r2, doc2)
        ctx.label("edited-after-first-write")
    # metamorphic: the reader guarantees ascending time steps whatever the order of the state elements
    root = etree.fromstring(doc if isinstance(doc, bytes) else doc.encode("utf-8"))
    changed = False
    for node in root:
        kids = list(node)
        if len(kids) > 1:
            for k in kids:
                node.remove(k)
            perm = r.get("perm", 1) % len(kids)
            kids = kids[perm:] + kids[:perm] if perm else list(reversed(kids))
            for k in kids:
                node.append(k)
            changed = True
    if changed:
        with warnings.catch_warnings():
            warnings.simplefilter("ignore")
            back2 = CommonRoadSolutionReader.fromstring(etree.tostring(root))
        compare_solution(r, back2, "permuted-")
        ctx.label("permuted-states")
    nt = len(r["pps"]) > 1
    for p in r["pps"]:
        ctx.label("kind-" + p["kind"])
        for vals in p["states"]:
            for v in vals:
                if isinstance(v, float) and ("e" in repr(v) or len(repr(v).replace("-", "").replace(".", "")) >= 15):
                    nt = True
                if isinstance(v, int):
                    ctx.label("int-value")
    for k in ("date", "computation_time", "processor_name"):
        if r[k] is not None:
            ctx.label("has-" + k)
    if nt:
        ctx.nontrivial()


def check_schema(r, ctx):
    pps = [p for p in r["pps"] if p["kind"] in gs.SCHEMA_ORDER]
    if not pps:
        ctx.discard("only-kst")
    pps = sorted(pps, key=lambda p: gs.SCHEMA_ORDER.index(p["kind"]))
    r2 = dict(r, pps=pps)
    sol = gs.build_solution(r2)
    doc = CommonRoadSolutionWriter(sol).dump(pretty=r["pretty"])
    tree = etree.fromstring(doc if isinstance(doc, bytes) else doc.encode("utf-8"))
    sch = schema()
    if not sch.validate(tree):
        raise Violation("schema-" + str(sch.error_log.last_error.type_name), str(sch.error_log)[:1500])
    for p in pps:
        ctx.label("kind-" + p["kind"])
    ctx.nontrivial([[p["kind"] for p in pps], [k for k in ("date", "computation_time", "processor_name")
                                                if r[k] is not None], digest_values(pps)])


def digest_values(pps):
    return [[repr(v) for vals in p["states"] for v in vals][:6] for p in pps]


def s_roundtrip(tier):
    return st.tuples(gs.solution_recipe(extreme=True), st.integers(0, 7)).map(lambda t: dict(t[0], perm=t[1]))


def s_schema(tier):
    return gs.solution_recipe(extreme=True)


FACETS = [
    Facet("roundtrip", check_roundtrip, strategy=s_roundtrip, quick=5000, thorough=300000,
          rule="PM/ST/KS/KST/MB trajectories and Input/PMInput vectors x 1-4 planning problems x floats of any finite "
               "magnitude, ints, numpy scalars x metadata; reader vs recipe by float.hex, own lxml decoding vs the "
               "documented element table, permuted state order; non-trivial = value with exponent or >=15 digits, or "
               "cooperative solution"),
    Facet("schema", check_schema, strategy=s_schema, quick=3000, thorough=150000,
          rule="solutions of schema-defined trajectory kinds listed in schema order validated with lxml XMLSchema; "
               "distinct by kinds, metadata presence and leading values"),
]
