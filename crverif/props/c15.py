"""C15 - a file writer's output depends only on its own inputs."""
import os
import shutil
import tempfile
import warnings

import numpy as np
from hypothesis import strategies as st
from lxml import etree

from commonroad.common.file_reader import CommonRoadFileReader
from commonroad.common.file_writer import CommonRoadFileWriter, OverwriteExistingFile
from commonroad.common.util import FileFormat
from commonroad.scenario.lanelet import Lanelet
from commonroad.scenario_definition.protobuf_format.generated_scripts import commonroad_pb2

from crverif.core import Facet, HarnessError, Violation
from crverif.gen import fileprofile as fp
from crverif.gen import scenario as gs
from crverif.props import fileio

RULE = ("history of writer constructions and writes interpreted against reference contents E(scenario, format, "
        "precision, kind) produced by fresh writers BEFORE the history starts; date stamp removed before comparison")
ASSUMPTIONS = ["references are computed before the first history step (a lazily computed reference would itself construct "
               "a writer and could mask or cause the interference under test) and each is cross-checked against the "
               "recipe with the C01/C02 comparator",
               "scenario content restricted to what both formats can carry; virtual signs excluded (recorded C01 finding)",
               "XML: the 'date' attribute is removed, protobuf: information.date is cleared, before comparing"]

FORMATS = {"xml": FileFormat.XML, "pb": FileFormat.PROTOBUF}


def normalise(data, fmt):
    if fmt == "xml":
        root = etree.fromstring(data)
        if "date" in root.attrib:
            del root.attrib["date"]
        return etree.tostring(root)
    msg = commonroad_pb2.CommonRoad()
    msg.ParseFromString(data)
    stamp = msg.information.date
    for f in ("year", "month", "day", "hour", "minute"):
        if stamp.HasField(f):
            setattr(stamp, f, 1)
    return msg.SerializeToString(deterministic=True)


def make_writer(sc, pps, r, fmt, d):
    args, _ = fileio.writer_args(r)
    return CommonRoadFileWriter(sc, pps, args["author"], args["affiliation"], args["source"], args["tags"],
                                decimal_precision=d, file_format=FORMATS[fmt])


def do_write(w, kind, path, mode=OverwriteExistingFile.ALWAYS):
    import contextlib
    import io
    with contextlib.redirect_stdout(io.StringIO()):
        if kind == "full":
            w.write_to_file(path, mode)
        else:
            w.write_scenario_to_file(path, mode)


def edit(sc):
    """The scenario a writer refers to is edited through the public API (the writer's input changes)."""
    sc.translate_rotate(np.array([3.0, -2.0]), 0.0)
    xs = [9000.0, 9010.0, 9020.0]
    sc.lanelet_network.add_lanelet(Lanelet(np.array([[x, 2.0] for x in xs]), np.array([[x, 0.0] for x in xs]),
                                           np.array([[x, -2.0] for x in xs]), 99990))


def check(r, ctx):
    d = tempfile.mkdtemp(prefix="crverif-c15-")
    try:
        with warnings.catch_warnings():
            warnings.simplefilter("ignore")
            scen = [(gs.build_scenario(s), gs.build_pps(s["pps"])) for s in r["scenarios"]]
            # ---- references, all computed before the history starts
            ref = {}
            n = 0
            edited_scenarios = {op[1] % len(scen) for op in r["ops"] if op[0] == "edit"}
            for si, s in enumerate(r["scenarios"]):
                for fmt in ("xml", "pb"):
                    for prec in r["precisions"]:
                        for kind in ("full", "scenario"):
                            if si in edited_scenarios:
                                sc, pps = gs.build_scenario(s), gs.build_pps(s["pps"])
                                edit(sc)
                                path = os.path.join(d, "ref%d.%s" % (n, fmt))
                                n += 1
                                do_write(make_writer(sc, pps, s, fmt, prec), kind, path)
                                with open(path, "rb") as f:
                                    ref[(si, fmt, prec, kind, True)] = normalise(f.read(), fmt)
                            sc, pps = gs.build_scenario(s), gs.build_pps(s["pps"])
                            path = os.path.join(d, "ref%d.%s" % (n, fmt))
                            n += 1
                            do_write(make_writer(sc, pps, s, fmt, prec), kind, path)
                            with open(path, "rb") as f:
                                ref[(si, fmt, prec, kind, False)] = normalise(f.read(), fmt)
                            if kind == "full":
                                sc2, pps2 = CommonRoadFileReader(path, file_format=FORMATS[fmt]).open()
                                tol = (lambda p, t=10.0 ** (-prec): t) if fmt == "xml" else (lambda p: 0)
                                diffs = fileio.compare_roundtrip(s, fmt, sc2, pps2, tol)
                                if diffs:   # "each such file reads back to the same scenario"
                                    raise Violation("fresh-writer-file-does-not-read-back-%s" % fmt,
                                                    "first write of a freshly constructed writer (precision %d): %s: "
                                                    "%r -> %r (%d differences)" % (prec, diffs[0][0], diffs[0][1],
                                                                                  diffs[0][2], len(diffs)))
            # ---- history
            writers = []
            nfile = 0
            reused = interleaved = False
            edited = set()
            stale = False
            for op in r["ops"]:
                if op[0] == "edit":
                    si = op[1] % len(scen)
                    if si not in edited:
                        edit(scen[si][0])
                        edited.add(si)
                        if any(x["key"][0] == si and x["writes"] > 0 for x in writers):
                            stale = True
                            ctx.label("history-edits-scenario-of-a-used-writer")
                        ctx.label("op-edit")
                    continue
                if op[0] == "new":
                    _, si, fmt, pi = op
                    si %= len(scen)
                    prec = r["precisions"][pi % len(r["precisions"])]
                    writers.append({"w": make_writer(scen[si][0], scen[si][1], r["scenarios"][si], fmt, prec),
                                    "key": (si, fmt, prec), "writes": 0, "born": len(writers)})
                    ctx.label("op-new-" + fmt)
                    continue
                if not writers:
                    ctx.label("op-skipped-no-writer")
                    continue
                wi = op[1] % len(writers)
                ww = writers[wi]
                si, fmt, prec = ww["key"]
                kind = op[2]
                path = os.path.join(d, "out%d.%s" % (nfile, fmt))
                nfile += 1
                default_name = op[0] == "skip" and len(op) > 4 and op[4]
                if op[0] == "skip" and default_name:
                    # the writer chooses the file name itself: <scenario id> with or without the format's suffix, in
                    # the working directory; both candidates exist already and must stay untouched
                    junk = bytes(op[3])
                    base = os.path.join(d, str(scen[si][0].scenario_id))
                    cands = [base, base + (".xml" if fmt == "xml" else ".pb")]
                    for c in cands:
                        with open(c, "wb") as f:
                            f.write(junk)
                    cwd = os.getcwd()
                    os.chdir(d)
                    try:
                        do_write(ww["w"], kind, None, OverwriteExistingFile.SKIP)
                    finally:
                        os.chdir(cwd)
                    for c in cands:
                        with open(c, "rb") as f:
                            now = f.read()
                        if now != junk:
                            raise Violation("skip-modified-default-named-file-" + fmt, "%s: %d bytes before, %d after" % (
                                os.path.basename(c), len(junk), len(now)))
                        os.remove(c)
                    ctx.label("op-skip-default-file-name")
                    continue
                if op[0] == "skip":
                    junk = bytes(op[3])
                    with open(path, "wb") as f:
                        f.write(junk)
                    before = sorted(os.listdir(d))
                    do_write(ww["w"], kind, path, OverwriteExistingFile.SKIP)
                    with open(path, "rb") as f:
                        now = f.read()
                    if now != junk:
                        raise Violation("skip-modified-file-" + fmt, "%d bytes before, %d after" % (len(junk), len(now)))
                    if sorted(os.listdir(d)) != before:
                        raise Violation("skip-created-files-" + fmt, repr(set(os.listdir(d)) - set(before)))
                    ctx.label("op-skip")
                    continue
                if op[0] == "overwrite":
                    with open(path, "wb") as f:      # an existing file that is much LONGER than what will be written
                        f.write(b"previous content " * 30000)
                do_write(ww["w"], kind, path)
                with open(path, "rb") as f:
                    raw = f.read()
                try:
                    got = normalise(raw, fmt)
                except Exception as e:   # the written file is not even a well-formed document of its format
                    raise Violation("written-file-unparsable-%s-%s" % (fmt, op[0]), "%s after %s onto %s: %d bytes: %s"
                                    % (type(e).__name__, op[0], "an existing longer file" if op[0] == "overwrite" else
                                       "a fresh path", len(raw), str(e)[:200]))
                exp = ref[(si, fmt, prec, kind, si in edited)]
                if got != exp:
                    others = any(x["key"][1:] != ww["key"][1:] for x in writers if x is not ww)
                    why = "reused-writer" if ww["writes"] > 0 else ("other-writer-constructed" if others else "first-use")
                    if si in edited and got == ref[(si, fmt, prec, kind, False)]:
                        why = "stale-after-scenario-edit"
                    raise Violation("content-differs-%s-%s" % (fmt, why), "write #%d of writer %d (%s, precision %d, "
                                    "%s): %d bytes, reference %d bytes; first difference at byte %d: %r vs %r" % (
                                        ww["writes"] + 1, wi, fmt, prec, kind, len(got), len(exp),
                                        first_diff(got, exp), got[first_diff(got, exp):][:80],
                                        exp[first_diff(got, exp):][:80]))
                if ww["writes"] > 0:
                    reused = True
                if any(x["born"] > ww["born"] and x["key"][1:] != ww["key"][1:] for x in writers):
                    interleaved = True
                ww["writes"] += 1
                ctx.label("op-%s-%s" % (op[0], kind))
    finally:
        shutil.rmtree(d, ignore_errors=True)
    if reused:
        ctx.label("history-reuses-a-writer")
    if interleaved:
        ctx.label("history-writes-after-other-writer-was-built")
    if reused or interleaved or stale:
        ctx.nontrivial()


def first_diff(a, b):
    for i, (x, y) in enumerate(zip(a, b)):
        if x != y:
            return i
    return min(len(a), len(b))


@st.composite
def s_history(draw, tier=None):
    from crverif.gen.pbprofile import pb_profile_base
    base = fp.xml_profile_base()
    pbp = pb_profile_base()
    extra = {"virtual_true": False, "time_of_day": [], "weather": [], "underground": [],
             "tags": sorted(set(base["tags"]) & set(pbp["tags"])), "pb_sign_filter": True,
             "custom_extra": fp.PB_CUSTOM_EXTRA, "min_types": 0}
    n = draw(st.integers(1, 3))
    scenarios = [dict(draw(fp.file_scenario("xml", max_lanelets=3, max_obstacles=3, max_pps=1, min_pps=1,
                                            decimals=4, extra_profile=extra)), use_scenario_meta=draw(st.booleans()),
                      _untyped_lanelets=True)
                 for _ in range(n)]
    precisions = draw(st.lists(st.integers(1, 12), min_size=2, max_size=3, unique=True))
    op = st.one_of(
        st.tuples(st.just("new"), st.integers(0, 2), st.sampled_from(["xml", "xml", "pb"]), st.integers(0, 2)),
        st.tuples(st.sampled_from(["write", "write", "write", "overwrite"]), st.integers(0, 4),
                  st.sampled_from(["full", "scenario"])),
        st.tuples(st.just("skip"), st.integers(0, 4), st.sampled_from(["full", "scenario"]),
                  st.lists(st.integers(0, 255), max_size=40), st.booleans()),
        st.tuples(st.just("edit"), st.integers(0, 2)))
    first = draw(st.tuples(st.just("new"), st.integers(0, 2), st.sampled_from(["xml", "pb"]), st.integers(0, 2)))
    ops = [list(first)] + [list(o) for o in draw(st.lists(op, min_size=2, max_size=12))]
    return {"scenarios": scenarios, "precisions": precisions, "ops": ops}


FACETS = [
    Facet("histories", check, strategy=s_history, quick=640, shards_quick=16, thorough=20000,
          rule="1-3 scenarios x 2-3 precisions from 1..12 x up to 5 writer objects (XML / protobuf); 3-13 operations "
               "new / write_to_file / write_scenario_to_file / overwrite ALWAYS / SKIP onto arbitrary bytes / edit of "
               "the scenario (translation + added lanelet) between writes; "
               "non-trivial = a writer is used twice, or a writer writes after another writer with a different "
               "precision or format was constructed"),
]
