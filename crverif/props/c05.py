"""C05 - translate_rotate is the exact rigid motion on every object."""
import math
import warnings

import numpy as np
from hypothesis import strategies as st

from crverif.core import Facet, Violation
from crverif.gen import geometry as gg
from crverif.gen import scenario as gs
from crverif.gen.values import TWO_PI, angle, translation
from crverif.oracle import geom
from crverif.oracle.extract import extract

RULE = ("every stored point must equal R(a)(p+t) computed with math.cos/sin, every orientation th+a modulo 2pi, "
        "dimensions/areas/lengths unchanged, inverse motion restores; objects built fresh from the recipe")
ASSUMPTIONS = ["tolerance 1e-9*(1+|p|+|t|) on points, 1e-9 on angles (mod 2pi), 1e-9 relative on dimensions",
               "states without a stored orientation but with (velocity, velocity_y): the velocity vector must rotate by "
               "a (their heading atan2(vy, vx) is the orientation the property speaks of); checked when speed > 1e-6",
               "traffic-light 'shape', areas, histories and meta information are not among the listed components"]


def motion():
    return st.tuples(translation(1e3), angle()).map(lambda t: {"t": t[0], "a": t[1]})


def apply(obj, t, a):
    if not hasattr(obj, "translate_rotate"):
        raise Violation("no-translate_rotate:" + type(obj).__name__, "object of %s cannot be moved" % type(obj))
    res = obj.translate_rotate(np.array(t, dtype=float), a)
    return obj if res is None else res


def compare(before, after, t, a, tag=""):
    """before/after: extract() lists. Raises Violation on the first mismatch."""
    if [b[0] for b in before] != [x[0] for x in after]:
        missing = sorted(set(b[0] for b in before) ^ set(x[0] for x in after))
        raise Violation(tag + "structure-changed", "paths differ: %r" % missing[:6])
    tn = abs(t[0]) + abs(t[1])
    for (path, kind, v0), (_, _, v1) in zip(before, after):
        bucket = tag + kind + ":" + strip_indices(path)
        if kind == "pt":
            exp = geom.rigid(v0, t, a)
            tol = 1e-9 * (1 + abs(v0[0]) + abs(v0[1]) + tn)
            if geom.dist(exp, v1) > tol:
                raise Violation(bucket, "%s: %r -> %r, expected %r (t=%r a=%r, off by %g)" % (
                    path, v0, v1, exp, t, a, geom.dist(exp, v1)))
        elif kind in ("ring", "line"):
            exp = [geom.rigid(p, t, a) for p in v0]
            tol = 1e-9 * (1 + max(abs(x) for p in v0 for x in p) + tn)
            if kind == "line":
                ok = len(exp) == len(v1) and all(geom.dist(p, q) <= tol for p, q in zip(exp, v1))
            else:
                ok = gg.same_ring(exp, v1, tol)
            if not ok:
                worst = max((geom.dist(p, q) for p, q in zip(exp, v1)), default=-1) if len(exp) == len(v1) else -1
                raise Violation(bucket, "%s: t=%r a=%r worst deviation %g; got %r expected %r" % (
                    path, t, a, worst, v1[:3], exp[:3]))
        elif kind == "ang":
            if abs(geom.angle_diff(v1, v0 + a)) > 1e-9 or abs(v1) > TWO_PI + 1e-12:
                raise Violation(bucket, "%s: %r -> %r with a=%r" % (path, v0, v1, a))
        elif kind == "ai":
            if abs((v1[1] - v1[0]) - (v0[1] - v0[0])) > 1e-9 or abs(geom.angle_diff(v1[0], v0[0] + a)) > 1e-9 \
                    or not (-TWO_PI - 1e-12 <= v1[0] <= v1[1] <= TWO_PI + 1e-12):
                raise Violation(bucket, "%s: %r -> %r with a=%r" % (path, v0, v1, a))
        elif kind == "vec":
            sp = math.hypot(*v0)
            if abs(math.hypot(*v1) - sp) > 1e-9 * (1 + sp):
                raise Violation(bucket + "-speed", "%s: %r -> %r" % (path, v0, v1))
            if sp > 1e-6:
                h0, h1 = math.atan2(v0[1], v0[0]), math.atan2(v1[1], v1[0])
                if abs(geom.angle_diff(h1, h0 + a)) > 1e-9:
                    raise Violation(bucket + "-heading", "%s: heading %r -> %r with a=%r" % (path, h0, h1, a))
        elif kind == "dim":
            if abs(v1 - v0) > 1e-9 * (1 + abs(v0)):
                raise Violation(bucket, "%s: %r -> %r (t=%r a=%r)" % (path, v0, v1, t, a))


def strip_indices(path):
    out, skip = [], False
    for ch in path:
        if ch == "[":
            skip = True
        elif ch == "]":
            skip = False
        elif not skip:
            out.append(ch)
    return "".join(out)


def restored(before, back, tag):
    tn = 0.0
    for (path, kind, v0), (_, _, v1) in zip(before, back):
        bucket = tag + "inverse-" + kind + ":" + strip_indices(path)
        if kind == "pt":
            if geom.dist(v0, v1) > 1e-8 * (1 + abs(v0[0]) + abs(v0[1])) + 1e-6:
                raise Violation(bucket, "%s: %r restored as %r" % (path, v0, v1))
        elif kind in ("ring", "line"):
            tol = 1e-6
            ok = gg.same_ring(v0, v1, tol) if kind == "ring" else (
                len(v0) == len(v1) and all(geom.dist(p, q) <= tol for p, q in zip(v0, v1)))
            if not ok:
                raise Violation(bucket, "%s not restored" % path)
        elif kind == "ang":
            if abs(geom.angle_diff(v1, v0)) > 1e-9:
                raise Violation(bucket, "%s: %r restored as %r" % (path, v0, v1))
        elif kind == "dim":
            if abs(v1 - v0) > 1e-9 * (1 + abs(v0)):
                raise Violation(bucket, "%s: %r restored as %r" % (path, v0, v1))


def degenerate_heading(x):
    """A point-mass-like state (vx, vy, no orientation attribute) that stands still has no heading."""
    if isinstance(x, dict):
        if "cls" in x and isinstance(x.get("a"), dict):
            a = x["a"]
            if "orientation" not in a and isinstance(a.get("velocity"), (int, float)) and isinstance(
                    a.get("velocity_y"), (int, float)) and math.hypot(a["velocity"], a["velocity_y"]) < 1e-3:
                return True
        return any(degenerate_heading(v) for v in x.values())
    if isinstance(x, list):
        return any(degenerate_heading(v) for v in x)
    return False


def _shapes_of(obj):
    """The free-standing shapes of an object (regions in world coordinates), in a fixed order."""
    from commonroad.geometry.shape import Shape
    from commonroad.planning.goal import GoalRegion
    from commonroad.prediction.prediction import SetBasedPrediction
    from commonroad.scenario.obstacle import EnvironmentObstacle, PhantomObstacle, DynamicObstacle
    out = []
    if isinstance(obj, Shape):
        out.append(obj)
    elif isinstance(obj, GoalRegion):
        out += [s.position for s in obj.state_list if isinstance(getattr(s, "position", None), Shape)]
    elif isinstance(obj, SetBasedPrediction):
        out += [o.shape for o in obj.occupancy_set]
    elif isinstance(obj, EnvironmentObstacle):
        out.append(obj.obstacle_shape)
    elif isinstance(obj, (PhantomObstacle, DynamicObstacle)) and isinstance(obj.prediction, SetBasedPrediction):
        out += [o.shape for o in obj.prediction.occupancy_set]
    flat = []
    for sh in out:
        flat += list(getattr(sh, "shapes", [sh]))
    return flat


def _probe_points(shapes):
    """Per shape one point well inside and one well outside (own geometry), or None."""
    pts = []
    for sh in shapes:
        g = gg.lib_shape_geo(sh)
        if g["k"] == "circle":
            pts.append((list(g["c"]), [g["c"][0] + 3 * g["r"] + 1.0, g["c"][1]]))
            continue
        c = geom.polygon_centroid(g["v"])
        inside, d = geom.point_in_polygon(c, g["v"])
        size = max(abs(p[0] - c[0]) + abs(p[1] - c[1]) for p in g["v"])
        pts.append((c if inside and d > 1e-3 * (1 + size) else None, [c[0] + 4 * size + 1.0, c[1]]))
    return pts


def run(build, r, ctx, n_points_min=2):
    t, a = r["m"]["t"], r["m"]["a"]
    if degenerate_heading(r["obj"]):
        ctx.discard("point-mass state at rest has no heading")
    with warnings.catch_warnings():
        warnings.simplefilter("ignore")
        ref = build(r["obj"])
        before = extract(ref)
        obj = build(r["obj"])
        if r.get("prequery"):
            extract(obj)     # every lazily computed value (vertices, polygons, occupancies) exists before the motion
        probes = _probe_points(_shapes_of(ref))
        if r.get("prequery"):
            for sh, (pin, pout) in zip(_shapes_of(obj), probes):
                sh.contains_point(np.array(pout))
        moved = apply(obj, t, a)
        after = extract(moved)
        compare(before, after, t, a)
        # a moved region contains the moved image of a point well inside it and not that of a point well outside
        m_shapes = _shapes_of(moved)
        if len(m_shapes) == len(probes):
            for i, (sh, (pin, pout)) in enumerate(zip(m_shapes, probes)):
                if pin is not None and not sh.contains_point(np.array(geom.rigid(pin, t, a))):
                    raise Violation("moved-shape-rejects-inner-point", "shape %d (%s): image %r of the inner point %r is "
                                    "not contained after translate_rotate(%r, %r)" % (
                                        i, type(sh).__name__, geom.rigid(pin, t, a), pin, t, a))
                if sh.contains_point(np.array(geom.rigid(pout, t, a))):
                    raise Violation("moved-shape-accepts-outer-point", "shape %d (%s): image of the far point %r is "
                                    "contained after translate_rotate(%r, %r)" % (i, type(sh).__name__, pout, t, a))
            if probes:
                ctx.label("containment-probes")
        if r.get("inverse", True):
            # the library translates first and rotates second; the inverse is two calls (rotate back, translate back)
            back = apply(moved, [0.0, 0.0], -a)
            back = apply(back, [-t[0], -t[1]], 0.0)
            # with the translation bound (1e3) the restored values are accurate to ~1e-9; tolerance 1e-6
            restored(before, extract(back), "")
    npts = sum(1 if k == "pt" else (len(v) if k in ("ring", "line") else 0) for _, k, v in before)
    if a != 0 and (t[0] != 0 or t[1] != 0) and npts >= n_points_min:
        ctx.nontrivial()
    if 0 < abs(a) <= 0.05:
        ctx.label("small-angle")
    elif a == 0:
        ctx.label("zero-angle")
    else:
        ctx.label("large-angle")


def facet(name, obj_strategy, build, quick, thorough, rule, n_points_min=2):
    def strat(tier):
        return st.fixed_dictionaries({"obj": obj_strategy(tier), "m": motion(), "prequery": st.booleans()})

    def check(r, ctx):
        run(build, r, ctx, n_points_min)
    return Facet(name, check, strategy=strat, quick=quick, thorough=thorough,
                 rule=rule + "; non-trivial = a != 0, t != 0 and >= %d stored points" % n_points_min)


# ------------------------------------------------------------------------------------------------ object strategies
def s_state(tier):
    def with_uncertainty(s):
        return st.tuples(st.just(s), st.one_of(st.none(), gg.simple_shape()), st.one_of(st.none(),
                         gg.angle_interval_value())).map(uncertain)

    def uncertain(t):
        s, region, ai = t
        a = dict(s["a"])
        if region is not None and "position" in a:
            a["position"] = {"shape": region}
        if ai is not None and "orientation" in a:
            a["orientation"] = ai
        return dict(s, a=a)
    cls = st.sampled_from(sorted(gg.STATE_FIELDS))
    base = cls.flatmap(lambda c: gg.exact_state(c, 3, lim=1e3))
    custom = st.fixed_dictionaries({"position": gg.point(1e3), "velocity": gg.scalar_value(),
                                    "velocity_y": gg.scalar_value()}).map(
        lambda a: {"cls": "CustomState", "t": 1, "a": a})
    custom_o = st.fixed_dictionaries({"position": gg.point(1e3), "orientation": angle(),
                                      "curvature": gg.scalar_value()}).map(
        lambda a: {"cls": "CustomState", "t": 1, "a": a})
    return st.one_of(base, base.flatmap(with_uncertainty), custom, custom_o)


def s_trajectory(tier):
    return st.tuples(st.sampled_from(sorted(gg.STATE_FIELDS)), st.integers(0, 5), st.integers(1, 6)).flatmap(
        lambda t: gg.trajectory(t[0], t[1], t[2], lim=1e3))


def build_traj_prediction(r):
    return gs.build_prediction({"k": "traj", "traj": r["traj"]}, r["shape"])


def s_traj_prediction(tier):
    return st.fixed_dictionaries({"traj": s_trajectory(tier), "shape": gg.any_shape(centered=True)})


def s_set_prediction(tier):
    occ = st.fixed_dictionaries({"t": st.integers(0, 20), "shape": gg.any_shape()})
    return st.lists(occ, min_size=1, max_size=4).map(lambda o: {"k": "set", "t0": 0, "occ": o})


def s_obstacle(role):
    def strat(tier):
        return gs.obstacle_recipe(7, role=role, lim=1e3)
    return strat


def s_uncertain_obstacle(tier):
    """Obstacles whose initial state (and, for dynamic ones, a predicted state) has a region-valued position and / or an
    interval-valued orientation: the derived occupancy moves rigidly with the obstacle."""
    from crverif.props import c04

    def build(t):
        r, t0, more = t
        a = {"position": {"shape": r["region"]} if r["region"] is not None else r["pos"], "orientation": r["ori"],
             "velocity": 1.0, "acceleration": 0.0, "yaw_rate": 0.0, "slip_angle": 0.0}
        ob = {"role": r["role"], "id": 5, "type": "CAR" if r["role"] == "dynamic" else "PARKED_VEHICLE",
              "shape": r["shape"], "init": {"cls": "InitialState", "t": t0, "a": a}}
        if r["role"] == "dynamic" and more:
            states = [{"cls": "KSState", "t": t0 + 1 + k, "a": {
                "position": {"shape": gg.recentre_to(r["region"], [3.0 * (k + 1), 1.0 * k])} if r["region"] is not None
                else [r["pos"][0] + 3.0 * (k + 1), r["pos"][1] + k], "orientation": r["ori"], "velocity": 1.0,
                "steering_angle": 0.0}} for k in range(more)]
            ob["pred"] = {"k": "traj", "traj": {"t0": t0 + 1, "states": states}}
        return ob
    return st.tuples(c04.s_uncertain(tier), st.integers(0, 3), st.integers(0, 2)).map(build)


def s_lanelet(tier):
    def attach(pl):
        # the centre line is an independent constructor argument: in half of the cases it is NOT the mid line
        def centre(f):
            if f is None:
                return pl["center"]
            return [[r[0] + f * (l[0] - r[0]), r[1] + f * (l[1] - r[1])] for l, r in zip(pl["left"], pl["right"])]
        return st.tuples(st.one_of(st.none(), st.tuples(gg.point(1e3), gg.point(1e3))),
                         st.one_of(st.none(), st.floats(0.15, 0.85))).map(
            lambda t: {"id": 5, "left": pl["left"], "right": pl["right"], "center": centre(t[1]),
                       "stop_line": None if t[0] is None else {"start": t[0][0], "end": t[0][1], "marking": "SOLID"}})
    return gg.lanelet_polylines(2, 8, 0.5, 30.0, lim=1e3).flatmap(attach)


def s_sign_or_light(tier):
    sign = gg.point(1e3).map(lambda p: {"sign": {"id": 3, "elements": [{"country": "DEU", "name": "MAX_SPEED",
                                                                        "values": ["50"]}], "position": p,
                                                 "first_occurrence": [1]}})
    light = gg.point(1e3).map(lambda p: {"light": {"id": 4, "position": p, "cycle": [["RED", 3], ["GREEN", 2]]}})
    return st.one_of(sign, light)


def build_sign_or_light(r):
    return gs.build_sign(r["sign"]) if "sign" in r else gs.build_light(r["light"])


@st.composite
def s_network_c(draw):
    ids = gs.Ids(draw(gs.id_pool(60)))
    net = draw(gs.network_recipe(ids=ids, max_lanelets=5, lim=500))
    net = draw(gs.add_signs_lights(net, ids))
    return dict(net, _pole=draw(st.sampled_from([None, None, "shared-array", "int-array"])))


def build_network_c(r):
    """The network of the recipe; "_pole": a sign and a light stand on the same pole and were given the very same
    position array (through the public position setters), or positions are integer-typed arrays."""
    net = gs.build_network(r)
    signs, lights = net.traffic_signs, net.traffic_lights
    if r.get("_pole") == "shared-array" and signs and lights:
        pos = np.array(signs[0].position, dtype=float)
        signs[0].position = pos
        for li in lights[:2]:
            li.position = pos
    elif r.get("_pole") == "int-array":
        for x in signs + lights:
            x.position = np.array([int(round(float(v))) for v in x.position])
    return net


def s_goal(tier):
    return st.lists(gs.goal_state_recipe(), min_size=1, max_size=3).map(lambda g: {"states": g, "lanelets": None})


def s_pp(tier):
    return gs.planning_problem_recipe(9, lim=1e3)


def s_pps(tier):
    return st.tuples(gs.planning_problem_recipe(9, lim=1e3), gs.planning_problem_recipe(11, lim=1e3)).map(list)


def build_scenario_and_pps(r):
    sc = gs.build_scenario(r)
    if r.get("_shared_states"):
        # two vehicles of a platoon were given the very same Python list of predicted states (each trajectory stores the
        # list it is given): each of them is still moved exactly once with the scenario
        import copy
        from commonroad.prediction.prediction import TrajectoryPrediction
        from commonroad.scenario.obstacle import DynamicObstacle
        from commonroad.scenario.trajectory import Trajectory
        for o in sc.dynamic_obstacles:
            if isinstance(o.prediction, TrajectoryPrediction):
                tr = o.prediction.trajectory
                twin = DynamicObstacle(987650, o.obstacle_type, copy.deepcopy(o.obstacle_shape),
                                       copy.deepcopy(o.initial_state),
                                       TrajectoryPrediction(Trajectory(tr.initial_time_step, tr.state_list),
                                                            copy.deepcopy(o.prediction.shape)))
                sc.add_objects(twin)
                break
    return sc


FACETS = [
    facet("shape", lambda tier: gg.any_shape(), gg.build_shape, 4000, 200000,
          "Rectangle/Circle/Polygon/ShapeGroup (off-centre, oriented)", 1),
    facet("state", s_state, gg.build_state, 4000, 200000,
          "every state class, exact / region position / angle-interval orientation, custom states with (vx,vy)", 1),
    facet("trajectory", s_trajectory, gg.build_trajectory, 2000, 100000, "1-6 states of every state class"),
    facet("trajectory-prediction", s_traj_prediction, build_traj_prediction, 1500, 80000,
          "trajectory + shape incl. derived occupancies"),
    facet("set-prediction", s_set_prediction, lambda r: gs.build_prediction(r, None), 1500, 80000,
          "1-4 occupancies of any shape kind"),
    facet("static-obstacle", s_obstacle("static"), gs.build_obstacle, 1500, 80000, "static obstacles", 1),
    facet("dynamic-obstacle", s_obstacle("dynamic"), gs.build_obstacle, 2000, 100000,
          "dynamic obstacles with trajectory (every state class) / set-based / no prediction", 1),
    facet("uncertain-obstacle", s_uncertain_obstacle, gs.build_obstacle, 1500, 60000,
          "static / dynamic obstacles with region-valued positions and interval-valued orientations incl. the derived "
          "occupancies", 1),
    facet("phantom-obstacle", s_obstacle("phantom"), gs.build_obstacle, 1000, 50000, "phantom obstacles", 1),
    facet("environment-obstacle", s_obstacle("environment"), gs.build_obstacle, 1000, 50000,
          "environment obstacles of every shape kind", 1),
    facet("lanelet", s_lanelet, gs.build_lanelet, 2500, 120000,
          "lanelets with 2-8 vertices with / without stop line incl. polygon and length"),
    facet("sign-light", s_sign_or_light, build_sign_or_light, 1500, 50000, "traffic sign / light positions", 1),
    facet("network", lambda tier: s_network_c(), build_network_c, 800, 40000,
          "networks of 1-5 lanelets with signs, lights, stop lines; a sign and lights sharing one position array, "
          "integer-typed position arrays"),
    facet("goal-region", s_goal, gs.build_goal, 1500, 80000, "1-3 goal states with shapes / angle intervals", 1),
    facet("planning-problem", s_pp, gs.build_planning_problem, 1200, 60000, "initial state + goal region", 1),
    facet("planning-problem-set", s_pps, gs.build_pps, 600, 30000, "two planning problems", 1),
    facet("scenario", lambda tier: st.tuples(gs.scenario_recipe(max_lanelets=4, max_obstacles=4, max_pps=0, lim=500),
                                             st.sampled_from([False, False, True])).map(
        lambda t: dict(t[0], _shared_states=t[1])),
          build_scenario_and_pps, 800, 40000,
          "whole scenarios with any mix of static/dynamic/phantom/environment obstacles (never fails, all moved)"),
]
