"""C19 - rendering is total and shows the model at the selected time."""
import copy
import dataclasses
import inspect
import itertools
import os
import traceback
import warnings

import matplotlib

matplotlib.use("Agg")
import matplotlib.collections as mcoll  # noqa: E402
import matplotlib.patches as mpatches  # noqa: E402
import numpy as np  # noqa: E402
from hypothesis import strategies as st  # noqa: E402
from matplotlib.backends.backend_agg import FigureCanvasAgg  # noqa: E402
from matplotlib.figure import Figure  # noqa: E402

from commonroad.planning.planning_problem import PlanningProblemSet  # noqa: E402
from commonroad.prediction.prediction import TrajectoryPrediction  # noqa: E402
from commonroad.scenario.obstacle import DynamicObstacle, EnvironmentObstacle, StaticObstacle  # noqa: E402
from commonroad.visualization import draw_params as DP  # noqa: E402
from commonroad.visualization.draw_params import BaseParam, MPDrawParams  # noqa: E402
from commonroad.visualization.mp_renderer import MPRenderer  # noqa: E402

from crverif.core import Facet, HarnessError, Violation, bucket_of_exception  # noqa: E402
from crverif.gen import geometry as gg  # noqa: E402
from crverif.gen import render_scene as rs  # noqa: E402

RULE = ("totality: draw + render + Agg canvas draw raise nothing; content: obstacle patches collected by the renderer "
        "vs. occupancies recomputed from the recipe (required <= drawn <= allowed), lanelet fill polygons vs. recipe "
        "rings; propagation: every nested group declaring a field carries the value set above it")
ASSUMPTIONS = [
    "scenes: 1-5 lanelets (the 2020a schema requires >= 1), <= 5 obstacles, <= 2 signs / lights / planning problems, "
    "<= 1 intersection, coordinates within +-60 m plus lanelet extent; traffic lights have a non-empty cycle (schema)",
    "obstacle shapes follow the obstacle-shape convention (rectangle / circle centred at the origin, polygon with "
    "centroid at the origin, groups of such members); trajectories / occupancy sets use consecutive time steps "
    "starting at initial_time_step + 1; trajectory state classes carry an explicit orientation",
    "uncertain states (region position, interval orientation / velocity) only with non-group shapes (the occupancy "
    "formula is undefined for groups) and only in the totality facets",
    "speed-limit sign elements always carry a numeric additional value; sign ids are drawn from the seven id enums "
    "the TrafficSignElement constructor documents; images only as shipped (missing image => library's text fallback)",
    "0 <= time_begin <= time_end; colours / widths stay at their defaults except the listed numeric parameters",
    "content facet: the statement's configuration only (draw_shape on; icons, signals, trajectories, extra "
    "occupancies, history, direction marker, initial-state marker off), exact states, int occupancy time steps; "
    "window end is accepted inclusive or exclusive; later-step occupancies of phantom obstacles and of set-based "
    "obstacles that have no occupancy at time_begin are allowed but not required",
    "lanelet selection is judged on the filled-polygon collections (fill_lanelet on); ids in draw_ids that do not "
    "exist select nothing",
    "propagation: only the positive claim is checked (value present on every declaring nested group, by identity "
    "for group-valued fields); a group replaced after construction must receive values set at the top afterwards "
    "(values set before the replacement are not required to be copied into the new group); constructor keywords "
    "are checked for the three base fields only (documented in __post_init__)",
    "create_video (needs ffmpeg) is out of scope; a scene whose construction itself fails is discarded (other "
    "properties own construction)",
    "tolerance 1e-9 * (1 + coordinate scale) on patch coordinates",
]

FIGSIZE, DPI = (2.4, 2.0), 40


# ------------------------------------------------------------------------------------- draw-parameter introspection
def param_classes():
    out = [c for _, c in sorted(vars(DP).items()) if inspect.isclass(c) and issubclass(c, BaseParam)]
    if len(out) < 10 or MPDrawParams not in out:
        raise HarnessError("draw_params introspection found only %d BaseParam classes" % len(out))
    return out


def public_fields(cls_or_obj):
    return [f.name for f in dataclasses.fields(cls_or_obj) if not f.name.startswith("_")]


def subgroups(obj):
    """(name, group) for the nested parameter groups an instance currently holds."""
    return [(k, v) for k, v in vars(obj).items() if isinstance(v, BaseParam)]


def walk(obj, path=()):
    yield path, obj
    for k, v in subgroups(obj):
        yield from walk(v, path + (k,))


def _tree_info():
    flags, groups = [], []
    for path, g in walk(MPDrawParams()):
        groups.append(".".join(path))
        for name in public_fields(g):
            if isinstance(getattr(g, name), bool):
                flags.append(".".join(path + (name,)))
    return flags, groups


FLAGS, GROUPS = _tree_info()
if len(FLAGS) < 60:
    raise HarnessError("only %d boolean draw parameters found" % len(FLAGS))
OBSTACLE_PREFIXES = ("dynamic_obstacle", "static_obstacle", "phantom_obstacle", "environment_obstacle", "occupancy",
                     "trajectory", "state", "shape")
MAP_PREFIXES = ("lanelet_network", "traffic_light", "traffic_sign")
PP_PREFIXES = ("planning_problem", "planning_problem_set", "initial_state", "goal_region")
NUMERIC = {  # a few non-boolean parameters whose values steer loops / scaling
    "dynamic_obstacle.history.steps": [0, 1, 3, 7], "dynamic_obstacle.history.step_size": [1, 2, 3],
    "dynamic_obstacle.history.fade_color": [0.0, 0.1, 0.5], "phantom_obstacle.history.steps": [0, 2],
    "lanelet_network.traffic_sign.scale_factor": [0.5, 1.0, 2.0],
    "lanelet_network.traffic_light.scale_factor": [0.5, 1.0, 2.0], "traffic_sign.scale_factor": [0.5, 2.0],
    "traffic_light.scale_factor": [0.5, 2.0], "lanelet_network.relative_angle": [0.0, 1.0, -2.5],
    "lanelet_network.traffic_sign.speed_limit_unit": ["auto", "mph", "kmh", "ms"],
    "traffic_sign.speed_limit_unit": ["auto", "mph", "kmh", "ms"],
    "dynamic_obstacle.trajectory.line_width": [0.05, 0.5], "trajectory.line_width": [0.05, 0.5],
    "dynamic_obstacle.opacity": [0.3, 1], "dynamic_obstacle.signals.signal_radius": [0.2, 1.0],
    "dynamic_obstacle.state.scale_factor": [0.1, 1.0], "dynamic_obstacle.state.radius": [0.2, 2.0],
    "planning_problem_set.planning_problem.initial_state.label": ["", "start"],
    "lanelet_network.lanelet.draw_linewidth": [0.1, 2.0],
}


def resolve(obj, dotted):
    """-> (group, field name) for a dotted path below obj."""
    parts = dotted.split(".")
    for p in parts[:-1]:
        obj = getattr(obj, p)
    return obj, parts[-1]


def make_params(p):
    """MPDrawParams from a parameter recipe (flags are flipped away from their defaults)."""
    mp = MPDrawParams()
    for dotted in p["flags"]:
        g, name = resolve(mp, dotted)
        setattr(g, name, not getattr(g, name))
    for dotted, value in sorted(p.get("values", {}).items()):
        g, name = resolve(mp, dotted)
        setattr(g, name, value)
    if p.get("ll_ids", "all") != "all":
        mp.lanelet_network.draw_ids = list(p["ll_ids"])
    if p.get("pp_ids", "all") != "all":
        mp.planning_problem_set.draw_ids = list(p["pp_ids"])
    if p.get("sign_ids", "all") != "all":
        mp.lanelet_network.traffic_sign.show_traffic_signs = list(p["sign_ids"])
        mp.traffic_sign.show_traffic_signs = list(p["sign_ids"])
    if p.get("window_first"):
        mp.time_begin, mp.time_end = p["tb"], p["te"]
    else:
        mp.time_end, mp.time_begin = p["te"], p["tb"]
    return mp


def standalone_group(mp, name, p):
    """A parameter group built on its own (not taken out of an MPDrawParams): same settings as mp.<name>."""
    ref = getattr(mp, name)
    g = type(ref)(time_begin=p["tb"], time_end=p["te"])
    for path, sub in walk(ref):
        tgt = g
        for k in path:
            tgt = getattr(tgt, k)
        for f in public_fields(sub):
            v = getattr(sub, f)
            if not isinstance(v, BaseParam) and f not in ("time_begin", "time_end"):
                setattr(tgt, f, v if not isinstance(v, list) else list(v))
    return g


def window():
    def build(t):
        tb, d, far = t
        return [tb, 200 if far else tb + d]
    return st.tuples(st.one_of(st.just(0), st.integers(0, 3), st.integers(0, 14)),
                     st.one_of(st.just(0), st.integers(0, 8)), st.integers(0, 9).map(lambda k: k == 0)).map(build)


def id_mask(n=7):
    """Id filter: each of the ids 1..n (lanelet ids are 1..5, so 6 and 7 never exist) listed with probability 1/2."""
    return st.lists(st.booleans(), min_size=n, max_size=n).map(lambda bs: [i + 1 for i, b in enumerate(bs) if b])


def flag_sets(fam, max_sparse=8):
    """Sparse sets (single-flag effects) and dense sets (every family flag flipped with probability 1/8, 1/4, 1/2)."""
    n = len(fam)

    def dense(k):
        return st.lists(st.integers(0, k - 1), min_size=n, max_size=n).map(
            lambda xs: [f for f, x in zip(fam, xs) if x == 0])
    sparse = st.lists(st.one_of(st.sampled_from(fam), st.sampled_from(FLAGS)), min_size=1, max_size=max_sparse,
                      unique=True)
    return st.one_of(sparse, sparse, dense(8), dense(4), dense(4), dense(2), dense(2))


KEY_FLAGS = [  # switches that enable whole drawing branches: flipped more often than the rest
    "lanelet_network.traffic_sign.draw_traffic_signs", "lanelet_network.intersection.draw_intersections",
    "lanelet_network.lanelet.show_label", "lanelet_network.traffic_sign.show_label",
    "lanelet_network.intersection.show_label", "lanelet_network.traffic_light.show_label",
    "dynamic_obstacle.draw_icon", "dynamic_obstacle.show_label", "dynamic_obstacle.history.draw_history",
    "dynamic_obstacle.occupancy.draw_occupancies", "dynamic_obstacle.draw_initial_state",
    "dynamic_obstacle.draw_direction", "phantom_obstacle.occupancy.draw_occupancies",
    "dynamic_obstacle.trajectory.draw_continuous", "dynamic_obstacle.trajectory.unique_colors",
    "trajectory.unique_colors", "trajectory.draw_continuous", "occupancy.draw_occupancies",
]
for _f in KEY_FLAGS:
    if _f not in FLAGS:
        raise HarnessError("draw parameter %s no longer exists" % _f)


def s_params(prefixes, max_flags=8, forms=("mp", "renderer", "group", "standalone", "components-mp")):
    fam = [f for f in FLAGS if f.startswith(prefixes)] or FLAGS
    key = [f for f in KEY_FLAGS if f.startswith(prefixes)]
    boost = st.lists(st.sampled_from(key), max_size=4, unique=True) if key else st.just([])
    nums = sorted(k for k in NUMERIC if k.startswith(prefixes))
    vals = st.just({})
    if nums:
        vals = st.lists(st.sampled_from(nums), max_size=3, unique=True).flatmap(
            lambda ks: st.fixed_dictionaries({k: st.sampled_from(NUMERIC[k]) for k in ks}))
    ids = st.one_of(st.just("all"), st.just("all"), id_mask())
    return st.fixed_dictionaries({
        "form": st.sampled_from(forms),
        "win": window(),
        "flags": st.tuples(flag_sets(fam, max_flags), boost).map(lambda t: sorted(set(t[0]) | set(t[1]))),
        "values": vals,
        "ll_ids": ids,
        "pp_ids": st.one_of(st.just("all"), st.just("all"),
                            st.lists(st.sampled_from([201, 202, 203]), max_size=2, unique=True).map(sorted)),
        "sign_ids": st.one_of(st.just("all"), st.just("all"), st.just("all"),
                              st.lists(st.sampled_from(["274", "206", "R2-1", "1004-31", 274]), max_size=2,
                                       unique=True)),
        "window_first": st.booleans(),
        "extras": st.booleans(),
        "again": st.integers(0, 3).map(lambda k: k == 0),
    }).map(lambda d: dict(d, tb=d["win"][0], te=d["win"][1]))


# ------------------------------------------------------------------------------------- rendering harness
class Stage:
    """Runs library / matplotlib calls; an exception without a frame inside the repository (raised by matplotlib on
    what the library handed it) is still a totality violation, bucketed by stage, type and raising function."""

    def __init__(self):
        self.stage = "draw"

    def run(self, stage, fn):
        self.stage = stage
        try:
            return fn()
        except Exception as e:  # noqa: BLE001
            if bucket_of_exception(e) is not None:
                raise
            tb = traceback.extract_tb(e.__traceback__)
            inner = tb[-1]
            if os.path.realpath(inner.filename) == os.path.realpath(__file__) or not any(
                    "matplotlib" in f.filename or "site-packages" in f.filename for f in tb):
                raise
            raise Violation("%s-raises-%s@%s" % (stage, type(e).__name__, inner.name),
                            "".join(traceback.format_exception(type(e), e, e.__traceback__))[-2500:])


def new_renderer(draw_params=None, **kw):
    fig = Figure(figsize=FIGSIZE, dpi=DPI)
    FigureCanvasAgg(fig)
    ax = fig.add_subplot(111)
    return fig, MPRenderer(draw_params=draw_params, ax=ax, **kw)


def build_or_discard(scene, ctx):
    try:
        return rs.build_scene(scene)
    except Exception as e:  # noqa: BLE001  construction is owned by other properties
        ctx.label("scene-construction-failed:%s" % type(e).__name__)
        ctx.discard("scene-construction-failed")


def draw_everything(rnd, sc, pps, mp, p, stage):
    """Draw scenario + planning problems in the way the recipe's 'form' prescribes."""
    form = p["form"]
    run = stage.run
    if form in ("mp", "renderer"):
        arg = mp if form == "mp" else None
        run("draw-scenario", lambda: sc.draw(rnd, arg))
        run("draw-planning-problem-set", lambda: pps.draw(rnd, arg))
        if p.get("extras"):
            for o in sc.dynamic_obstacles:
                if isinstance(o.prediction, TrajectoryPrediction):
                    run("draw-trajectory", lambda: o.prediction.trajectory.draw(rnd, arg))
        return

    def grp(name):
        if form == "components-mp":
            return mp
        if form == "standalone":
            return standalone_group(mp, name, p)
        return getattr(mp, name)

    run("draw-lanelet-network", lambda: sc.lanelet_network.draw(rnd, grp("lanelet_network")))
    for o in sc.obstacles:
        if isinstance(o, DynamicObstacle):
            name = "dynamic_obstacle"
        elif isinstance(o, StaticObstacle):
            name = "static_obstacle"
        elif isinstance(o, EnvironmentObstacle):
            name = "environment_obstacle"
        else:
            name = "phantom_obstacle"
        run("draw-" + name, lambda: o.draw(rnd, grp(name)))
    run("draw-planning-problem-set", lambda: pps.draw(rnd, grp("planning_problem_set")))
    if not p.get("extras"):
        return
    trajs = [o.prediction.trajectory for o in sc.dynamic_obstacles if isinstance(o.prediction, TrajectoryPrediction)]
    if trajs:
        run("draw-trajectories", lambda: rnd.draw_trajectories(trajs, grp("trajectory")))
        run("draw-trajectory", lambda: trajs[0].draw(rnd, grp("trajectory")))
    for o in sc.obstacles:
        occ = o.occupancy_at_time(p["tb"])
        if occ is not None:
            run("draw-occupancy", lambda: occ.draw(rnd, None if form == "components-mp" else grp("occupancy")))
            run("draw-shape", lambda: occ.shape.draw(rnd, grp("shape")))
    for o in sc.dynamic_obstacles + sc.static_obstacles:
        run("draw-state", lambda: o.initial_state.draw(rnd, grp("state")))
    for pp in pps.planning_problem_dict.values():
        run("draw-planning-problem", lambda: pp.draw(rnd, grp("planning_problem")))
        run("draw-goal-region", lambda: pp.goal.draw(rnd, grp("goal_region")))
    for s in sc.lanelet_network.traffic_signs:
        run("draw-traffic-sign", lambda: s.draw(rnd, grp("traffic_sign")))
    for li in sc.lanelet_network.traffic_lights:
        run("draw-traffic-light", lambda: li.draw(rnd, grp("traffic_light")))


def finish(fig, rnd, stage):
    stage.run("render", rnd.render)
    stage.run("canvas-draw", fig.canvas.draw)


def nondefault_count(p):
    n = len(p["flags"]) + len(p.get("values", {}))
    n += sum(1 for k in ("ll_ids", "pp_ids", "sign_ids") if p.get(k, "all") != "all")
    return n


# ------------------------------------------------------------------------------------- facet: totality
def s_totality(family):
    prefixes = {"obstacles": OBSTACLE_PREFIXES, "map": MAP_PREFIXES, "planning": PP_PREFIXES,
                "all": ("",)}[family]

    def strat(tier):
        big = tier != "quick"
        if family == "obstacles":
            scene = rs.scene(max_lanelets=2, max_obstacles=5, map_extras=False, min_obstacles=1, pps=False)
        elif family == "map":
            scene = st.one_of(rs.scene(max_lanelets=5, max_obstacles=1, pps=False),
                              rs.scene(max_lanelets=4, max_obstacles=0, pps=False, short=True))
        elif family == "planning":
            scene = rs.scene(max_lanelets=2, max_obstacles=1, map_extras=False).filter(lambda r: r["pps"])
        else:
            scene = rs.scene(max_lanelets=5, max_obstacles=5 if not big else 5)
        lim = st.one_of(st.none(), st.none(), st.just("auto"),
                        st.tuples(st.integers(-60, 0), st.integers(1, 60), st.integers(-60, 0), st.integers(1, 60)).map(list),
                        st.tuples(st.integers(-60, 0), st.integers(1, 60), st.integers(-60, 0), st.integers(1, 60)).map(
                            lambda t: [[t[0], t[1]], [t[2], t[3]]]))
        return st.fixed_dictionaries({"scene": scene, "params": s_params(prefixes),
                                      "renderer": st.fixed_dictionaries({"plot_limits": lim,
                                                                         "focus": st.one_of(st.none(), st.none(),
                                                                                            st.integers(0, 4))})})
    return strat


def check_totality(r, ctx):
    scene, p = r["scene"], r["params"]
    with warnings.catch_warnings():
        warnings.simplefilter("ignore")
        sc, pps = build_or_discard(scene, ctx)
        stage = Stage()
        mp = stage.run("params", lambda: make_params(p))
        kw = {}
        ro = r.get("renderer") or {}
        if ro.get("plot_limits") is not None:
            kw["plot_limits"] = ro["plot_limits"]
            ctx.label("plot-limits-" + ("auto" if ro["plot_limits"] == "auto" else "given"))
        dyn = [o for o in sc.obstacles if isinstance(o, DynamicObstacle)]
        if ro.get("focus") is not None and dyn:
            kw["focus_obstacle"] = dyn[ro["focus"] % len(dyn)]      # the plot is centred on this obstacle
            ctx.label("focus-obstacle")
        fig, rnd = stage.run("renderer", lambda: new_renderer(mp if p["form"] == "renderer" else None, **kw))
        draw_everything(rnd, sc, pps, mp, p, stage)
        finish(fig, rnd, stage)
        if p.get("again"):
            # next frame with the same renderer (what an animation does)
            mp.time_begin, mp.time_end = p["tb"] + 1, max(p["te"], p["tb"] + 1)
            q = dict(p, tb=p["tb"] + 1, te=max(p["te"], p["tb"] + 1))
            draw_everything(rnd, sc, pps, mp, q, stage)
            finish(fig, rnd, stage)
            ctx.label("second-frame")
    ctx.label("form-" + p["form"])
    roles = sorted({o["role"] for o in scene["obstacles"]})
    for role in roles:
        ctx.label("role-" + role)
    if any(isinstance(o["state"]["a"]["position"], dict) for o in scene["obstacles"] if "state" in o):
        ctx.label("uncertain-initial-position")
    horizons = [_horizon(o) for o in scene["obstacles"] if o["role"].startswith("dyn")]
    for lo, hi in horizons:
        ctx.label("window-before" if p["te"] < lo else "window-after" if p["tb"] > hi else "window-inside")
    for k in ("signs", "lights", "intersections", "pps"):
        if scene[k]:
            ctx.label("has-" + k)
    on = set(p["flags"])
    if scene["signs"] and "lanelet_network.traffic_sign.draw_traffic_signs" in on:
        ctx.label("signs-drawn")
    if scene["lights"] and "lanelet_network.traffic_light.draw_traffic_lights" not in on:
        ctx.label("lights-drawn")
    if scene["intersections"] and "lanelet_network.intersection.draw_intersections" in on:
        ctx.label("intersections-drawn")
    if any(f.endswith("draw_icon") for f in on):
        ctx.label("icons-on")
    if any(f.endswith("draw_history") for f in on):
        ctx.label("history-on")
    if nondefault_count(p) >= 3:
        ctx.nontrivial()


def _horizon(o):
    t0 = o["state"]["t"]
    if o.get("pred") is None:
        return t0, t0
    items = o["pred"]["states"] if o["pred"]["k"] == "traj" else o["pred"]["occ"]
    return t0, max(i["t"]["iv"][1] if isinstance(i["t"], dict) else i["t"] for i in items)


# ------------------------------------------------------------------------------------- reference occupancies
def flat(geo):
    if geo["k"] == "group":
        return [x for m in geo["m"] for x in flat(m)]
    return [geo]


def ref_occupancy(o, t):
    """Occupancy of an obstacle recipe at time step t as a list of primitive planar sets, None if it has none."""
    role = o["role"]
    if role == "env":
        return flat(gg.shape_geo(o["shape"]))
    if role == "phantom":
        if o["pred"] is None:
            return None
        for occ in o["pred"]["occ"]:
            if occ["t"] == t:
                return flat(gg.shape_geo(occ["shape"]))
        return None
    s = o["state"]
    if role == "static" or t == s["t"]:
        return flat(gg.place(o["shape"], s["a"]["position"], s["a"]["orientation"]))
    if t < s["t"] or o["pred"] is None:
        return None
    if o["pred"]["k"] == "traj":
        for q in o["pred"]["states"]:
            if q["t"] == t:
                return flat(gg.place(o["shape"], q["a"]["position"], q["a"]["orientation"]))
        return None
    for occ in o["pred"]["occ"]:
        if occ["t"] == t:
            return flat(gg.shape_geo(occ["shape"]))
    return None


def patch_geo(patch):
    if isinstance(patch, mpatches.Ellipse):
        w, h = float(patch.width), float(patch.height)
        c = [float(patch.center[0]), float(patch.center[1])]
        if w == h and float(patch.angle) == 0.0:
            return {"k": "circle", "c": c, "r": 0.5 * w}
        return {"k": "other", "what": "ellipse %r %r x %r angle %r" % (c, w, h, patch.angle)}
    if isinstance(patch, mpatches.Polygon):
        return {"k": "poly", "v": np.asarray(patch.get_xy(), dtype=float).tolist()}
    return {"k": "other", "what": type(patch).__name__}


def match_multiset(drawn, required, allowed_extra, tol):
    """required <= drawn <= required + allowed_extra as multisets of planar sets; -> (kind, detail) or None."""
    free = list(range(len(drawn)))
    for tag, g in required:
        hit = next((i for i in free if gg.same_geo(drawn[i], g, tol) is None), None)
        if hit is None:
            return "missing", "%s: %r is not among the drawn patches" % (tag, g)
        free.remove(hit)
    pool = list(allowed_extra)
    for i in free:
        hit = next((j for j, (_, g) in enumerate(pool) if gg.same_geo(drawn[i], g, tol) is None), None)
        if hit is None:
            return "unexpected", "drawn patch %r matches no occupancy the model reports in the window" % (drawn[i],)
        pool.pop(hit)
    return None


# ------------------------------------------------------------------------------------- facet: obstacle content
CONTENT_OFF = ["dynamic_obstacle.draw_signals", "phantom_obstacle.draw_signals",
               "dynamic_obstacle.trajectory.draw_trajectory", "phantom_obstacle.trajectory.draw_trajectory"]
# flags that must stay at their defaults in the statement's configuration (everything that adds obstacle patches)
CONTENT_FIXED = ("draw_shape", "draw_icon", "draw_direction", "draw_signals", "draw_initial_state",
                 "draw_occupancies", "draw_history", "draw_trajectory", "draw_arrow")
CONTENT_FREE = [f for f in FLAGS if f.rsplit(".", 1)[-1] not in CONTENT_FIXED]


def s_content(tier):
    roles = ["static", "dyn-traj", "dyn-traj", "dyn-set", "dyn-set", "dyn-none", "phantom", "env"]
    scene = rs.scene(exact_only=True, max_lanelets=2, max_obstacles=5, roles=roles, map_extras=False,
                     min_obstacles=1, pps=True)
    params = st.fixed_dictionaries({
        "form": st.sampled_from(["mp", "renderer", "group", "standalone", "components-mp"]),
        "win": st.one_of(window(), st.tuples(st.integers(0, 10), st.integers(0, 6)).map(lambda t: [t[0], t[0] + t[1]])),
        "flags": st.lists(st.sampled_from(CONTENT_FREE), max_size=4, unique=True),
        "window_first": st.booleans(),
        # earlier frames drawn and rendered with the same renderer: [time_begin, length, keep_static_artists]
        "prior": st.one_of(st.just([]), st.just([]), st.lists(
            st.tuples(st.integers(0, 10), st.integers(0, 6), st.booleans()).map(list), min_size=1, max_size=2)),
    }).map(lambda d: dict(d, tb=d["win"][0], te=d["win"][1], flags=sorted(set(d["flags"]) | set(CONTENT_OFF))))
    return st.fixed_dictionaries({"scene": scene, "params": params})


def check_content(r, ctx):
    scene, p = r["scene"], r["params"]
    tb, te = p["tb"], p["te"]
    if set(p["flags"]) - set(CONTENT_FREE) - set(CONTENT_OFF) or set(CONTENT_OFF) - set(p["flags"]):
        ctx.discard("not-the-statement's-configuration")
    with warnings.catch_warnings():
        warnings.simplefilter("ignore")
        sc, pps = build_or_discard(scene, ctx)
        stage = Stage()
        mp = make_params(p)
        fig, rnd = new_renderer(mp if p["form"] == "renderer" else None)
        for ptb, plen, keep in p.get("prior", []):
            # a renderer is reused for a sequence of frames: what is drawn for the frame under test is that frame's
            q = p if p["form"] == "renderer" else dict(p, tb=ptb, te=ptb + plen)
            draw_everything(rnd, sc, PlanningProblemSet([]), mp if p["form"] == "renderer" else make_params(q),
                            dict(q, extras=False), stage)
            stage.run("render", lambda: rnd.render(keep_static_artists=keep))
            stage.run("canvas-draw", fig.canvas.draw)
            ctx.label("frame-after-render(keep_static_artists=%s)" % keep)
        draw_everything(rnd, sc, PlanningProblemSet([]), mp, dict(p, extras=False), stage)
        drawn = [patch_geo(x) for x in rnd.obstacle_patches]
        stage.run("draw-planning-problem-set", lambda: pps.draw(rnd, mp if p["form"] != "renderer" else None))
        finish(fig, rnd, stage)
    required, extra, ambiguous = [], [], []
    has, lacks = 0, 0
    for o in scene["obstacles"]:
        tag = "%s %d" % (o["role"], o["id"])
        first = ref_occupancy(o, tb)
        if first is None:
            lacks += 1
        else:
            has += 1
            required += [("%s at time_begin=%d" % (tag, tb), g) for g in first]
        later_required = o["role"] == "dyn-set" and first is not None
        later_allowed = o["role"] in ("dyn-set", "phantom")
        if not later_allowed:
            continue
        pending = []
        for t in range(tb + 1, min(te, 40) + 1):
            occ = ref_occupancy(o, t)
            if occ is None:
                continue
            items = [("%s at t=%d" % (tag, t), g) for g in occ]
            if later_required and t < te:
                required += items
                ctx.label("later-step-required")
            elif o["role"] == "dyn-set" and t < te:
                pending += items
            else:
                extra += items
                ctx.label("later-step-allowed")
        if pending:
            # set-based obstacle without occupancy at time_begin: the statement can be read as "its later occupancies
            # are drawn" or as "nothing is drawn"; drawing some of them and not the others satisfies neither reading
            ambiguous.append(pending)
            ctx.label("later-steps-all-or-none")
    scale = max([1.0] + [gg.geo_scale_of(g) for _, g in required + extra] + [gg.geo_scale_of(g) for a in ambiguous
                                                                           for _, g in a])
    bad = None
    for choice in itertools.product([True, False], repeat=len(ambiguous)):
        req = list(required)
        for take, items in zip(choice, ambiguous):
            if take:
                req += items
        res = match_multiset(drawn, req, extra, 1e-9 * (1 + scale))
        if res is None:
            bad = None
            break
        bad = bad or res
    if bad:
        raise Violation("obstacle-patch-" + bad[0], "window [%d, %d], form %s: %s; drawn %d patches, required %d, "
                        "additionally allowed %d" % (tb, te, p["form"], bad[1], len(drawn), len(required),
                                                     len(extra)))
    ctx.label("form-" + p["form"])
    for o in scene["obstacles"]:
        ctx.label("role-" + o["role"])
        if o["role"].startswith("dyn"):
            lo, hi = _horizon(o)
            ctx.label("window-before" if te < lo else "window-after" if tb > hi else "window-inside")
    if tb > 0 and has and lacks:
        ctx.nontrivial()


# ------------------------------------------------------------------------------------- facet: lanelet selection
def s_lanelets(tier):
    ids = st.one_of(id_mask(), id_mask(), st.just("all"))
    fam = [f for f in FLAGS if f.startswith("lanelet_network") and not f.endswith("fill_lanelet")
           and not f.endswith("draw_border_vertices")]
    inter = ["lanelet_network.intersection.draw_intersections", "lanelet_network.intersection.draw_intersections",
             "lanelet_network.intersection.draw_incoming_lanelets", "lanelet_network.intersection.draw_crossings"]
    params = st.fixed_dictionaries({
        "form": st.sampled_from(["mp", "renderer", "group", "standalone", "components-mp"]),
        "win": window(), "ll_ids": ids, "window_first": st.booleans(),
        "flags": st.tuples(flag_sets(fam, 5), st.lists(st.sampled_from(inter), max_size=2, unique=True)).map(
            lambda t: sorted(f for f in set(t[0]) | set(t[1]) if f in fam)),
    }).map(lambda d: dict(d, tb=d["win"][0], te=d["win"][1]))
    return st.fixed_dictionaries({"scene": rs.scene(max_lanelets=5, max_obstacles=0, pps=False), "params": params})


def check_lanelets(r, ctx):
    scene, p = r["scene"], r["params"]
    if "lanelet_network.lanelet.fill_lanelet" in p["flags"]:
        ctx.discard("fill-switched-off")
    with warnings.catch_warnings():
        warnings.simplefilter("ignore")
        sc, pps = build_or_discard(scene, ctx)
        stage = Stage()
        mp = make_params(p)
        fig, rnd = new_renderer(mp if p["form"] == "renderer" else None)
        draw_everything(rnd, sc, pps, mp, dict(p, extras=False), stage)
        polys = []
        for col in rnd.static_collections:
            if isinstance(col, mcoll.PolyCollection):
                polys += [np.asarray(path.vertices, dtype=float).tolist() for path in col.get_paths()]
        finish(fig, rnd, stage)
    sel = scene["lanelets"] if p["ll_ids"] == "all" else [la for la in scene["lanelets"] if la["id"] in p["ll_ids"]]
    want = [("lanelet %d" % la["id"], {"k": "poly", "v": gg.lanelet_ring(la)}) for la in sel]
    got = [{"k": "poly", "v": v} for v in polys]
    scale = max(abs(x) for la in scene["lanelets"] for pt in la["left"] + la["right"] for x in pt)
    bad = match_multiset(got, want, [], 1e-9 * (1 + scale))
    if bad:
        raise Violation("lanelet-fill-" + bad[0], "draw_ids=%r, lanelets %r: %s (%d polygons drawn)" % (
            p["ll_ids"], [la["id"] for la in scene["lanelets"]], bad[1], len(got)))
    ctx.label("all" if p["ll_ids"] == "all" else "subset" if 0 < len(sel) < len(scene["lanelets"]) else
              "none-selected" if not sel else "all-listed")
    if scene["intersections"] and any("draw_intersections" in f for f in p["flags"]):
        ctx.label("intersection-fill")
    ctx.label("form-" + p["form"])
    if p["ll_ids"] != "all" and 0 < len(sel) < len(scene["lanelets"]):
        ctx.nontrivial()


# ------------------------------------------------------------------------------------- facet: propagation
CLASSES = {c.__name__: c for c in param_classes()}
VALUES = {"bool": [True, False], "int": [0, 1, 7, 41, 200, 12345], "float": [0.0, 0.25, 1.5, 33.0],
          "str": ["#123456", "red", "k", "#00ff00"], "list": [[1], [2, 3], []]}


def _value_kind(v):
    if isinstance(v, bool):
        return "bool"
    if isinstance(v, BaseParam):
        return "group:" + type(v).__name__
    if isinstance(v, int):
        return "int"
    if isinstance(v, float):
        return "float"
    if isinstance(v, str):
        return "str"
    return "list"


def _class_table():
    """class name -> list of (path of a group in the default tree, [(field declared somewhere at/below it, kind)])."""
    table = {}
    for name, cls in sorted(CLASSES.items()):
        rows = []
        root = cls()
        for path, g in walk(root):
            fields = {}
            for _, sub in walk(g):
                for f in public_fields(sub):
                    fields.setdefault(f, _value_kind(getattr(sub, f)))
            rows.append([list(path), sorted(fields.items())])
        table[name] = rows
    return table


TABLE = _class_table()


def s_propagation(tier):
    names = sorted(TABLE)

    def for_class(name):
        rows = TABLE[name]
        nested = [r[0] for r in rows if r[0]]

        def for_row(row):
            path, fields = row
            base = [f for f in fields if f[0] in ("time_begin", "time_end", "antialiased")]
            pick = st.one_of(st.sampled_from(fields), st.sampled_from(base))
            return pick.flatmap(lambda f: st.fixed_dictionaries({
                "cls": st.just(name), "path": st.just(path), "field": st.just(f[0]), "kind": st.just(f[1]),
                "value": st.sampled_from(VALUES[f[1]]) if not f[1].startswith("group:") else st.none(),
                "replace": st.one_of(st.none(), st.sampled_from(nested)) if nested else st.none(),
                "mode": st.sampled_from(["setattr", "setattr", "setitem", "ctor"]),
                "then": st.one_of(st.none(), st.sampled_from(VALUES["int"])),
                "root_copy": st.sampled_from([None, None, None, "deepcopy", "copy", "pickle"]),
            }))
        deep = [r for r in rows if any(len(o[0]) > len(r[0]) and o[0][:len(r[0])] == r[0] for o in rows)]
        return (st.one_of(st.sampled_from(rows), st.sampled_from(deep), st.sampled_from(deep)) if deep
                else st.sampled_from(rows)).flatmap(for_row)
    nesting = [n for n in names if len(TABLE[n]) > 1]
    return st.one_of(st.sampled_from(names), st.sampled_from(nesting), st.just("MPDrawParams")).flatmap(for_class)


def check_propagation(r, ctx):
    cls = CLASSES[r["cls"]]
    field, kind, mode = r["field"], r["kind"], r["mode"]
    value = CLASSES[kind[6:]]() if kind.startswith("group:") else r["value"]
    if isinstance(value, list):
        value = list(value)
    ctor = mode == "ctor" and field in ("time_begin", "time_end", "antialiased")
    if ctor:
        # the group at `path` is constructed with the keyword and put into place
        if r["path"]:
            root = cls()
            holder = root
            for k in r["path"][:-1]:
                holder = getattr(holder, k)
            target = type(getattr(holder, r["path"][-1]))(**{field: value})
            setattr(holder, r["path"][-1], target)
        else:
            root = target = cls(**{field: value})
        ctx.label("ctor")
    else:
        root = cls()
        if r.get("root_copy"):
            # the parameter set in use is a copy (parameter sets are copied for every frame of an animation)
            import pickle as _pickle
            root = (copy.deepcopy(root) if r["root_copy"] == "deepcopy" else copy.copy(root) if r["root_copy"] == "copy"
                    else _pickle.loads(_pickle.dumps(root)))
            ctx.label("root-is-a-" + r["root_copy"])
        if r["replace"] is not None:
            holder = root
            for k in r["replace"][:-1]:
                holder = getattr(holder, k)
            old = getattr(holder, r["replace"][-1])
            setattr(holder, r["replace"][-1], type(old)())
            ctx.label("replaced-group")
        target = root
        for k in r["path"]:
            target = getattr(target, k)
        if mode == "setitem":
            target[field] = value
        else:
            setattr(target, field, value)
    checked = 0
    depth = 0
    for path, g in walk(target):
        if field in public_fields(g):
            got = getattr(g, field)
            ok = got is value if isinstance(value, BaseParam) else (type(got) is type(value) and got == value)
            if not ok:
                where = ".".join(r["path"] + list(path)) or "<top>"
                raise Violation("not-propagated" + ("-ctor" if ctor else "-replaced" if r["replace"] else ""),
                                "%s: %s=%r set on %s (%s) but %s.%s is %r" % (
                                    r["cls"], field, value, ".".join(r["path"]) or "<top>", mode, where, field, got))
            checked += 1
            depth = max(depth, len(path))
    if r["then"] is not None and not isinstance(value, BaseParam):
        # a time window set at the very top afterwards reaches every group of the current tree
        root.time_begin = r["then"]
        root.time_end = r["then"] + 3
        for path, g in walk(root):
            if (g.time_begin, g.time_end) != (r["then"], r["then"] + 3):
                raise Violation("time-window-not-propagated" + ("-replaced" if r["replace"] else ""),
                                "%s: top-level window (%d, %d) but %s has (%r, %r)" % (
                                    r["cls"], r["then"], r["then"] + 3, ".".join(path) or "<top>", g.time_begin,
                                    g.time_end))
        ctx.label("window-after")
    ctx.label("depth-%d" % depth)
    ctx.label("kind-" + kind.split(":")[0])
    if depth >= 1 and checked >= 2:
        ctx.nontrivial([r["cls"], r["path"], field, r["replace"], mode])


# ------------------------------------------------------------------------------------- facet: style sheets
def _bool_fields(cls):
    return sorted(f.name for f in dataclasses.fields(cls) if f.type in (bool, "bool") and f.name != "antialiased"
                  and not f.name.startswith("_"))


def _top_groups():
    out = {}
    for f in dataclasses.fields(MPDrawParams):
        if inspect.isclass(f.type) and issubclass(f.type, BaseParam) and _bool_fields(f.type):
            out[f.name] = f.type
    return out


def s_style_sheet(tier):
    groups = _top_groups()
    mention = st.sampled_from(sorted(groups)).flatmap(lambda g: st.tuples(
        st.just(g), st.sampled_from(_bool_fields(groups[g])), st.booleans()).map(list))
    return st.fixed_dictionaries({"tb": st.integers(0, 30), "len": st.integers(0, 40),
                                  "antialiased": st.one_of(st.none(), st.booleans()),
                                  "mentions": st.lists(mention, min_size=0, max_size=3, unique_by=lambda m: m[0])})


def check_style_sheet(r, ctx):
    """A (partial, hand-written) YAML style sheet sets the time window at the top level and mentions some nested groups
    without repeating the window inside them: after loading, the window applies to every group."""
    import os
    import shutil
    import tempfile
    from omegaconf import OmegaConf
    doc = {"time_begin": r["tb"], "time_end": r["tb"] + r["len"]}
    if r["antialiased"] is not None:
        doc["antialiased"] = r["antialiased"]
    for g, f, v in r["mentions"]:
        doc[g] = {f: v}
    d = tempfile.mkdtemp(prefix="crverif-c19-")
    try:
        path = os.path.join(d, "style.yaml")
        OmegaConf.save(OmegaConf.create(doc), path)
        with warnings.catch_warnings():
            warnings.simplefilter("ignore")
            params = MPDrawParams.load(path)
    finally:
        shutil.rmtree(d, ignore_errors=True)
    for path, g in walk(params):
        where = ".".join(path) or "<top>"
        if (g.time_begin, g.time_end) != (doc["time_begin"], doc["time_end"]):
            raise Violation("style-sheet-window-not-propagated", "top-level window (%d, %d) of the file, but %s has "
                            "(%r, %r); file %r" % (doc["time_begin"], doc["time_end"], where, g.time_begin, g.time_end,
                                                   doc))
        if "antialiased" in doc and g.antialiased != doc["antialiased"]:
            raise Violation("style-sheet-antialiased-not-propagated", "%s.antialiased = %r; file %r" % (
                where, g.antialiased, doc))
    for g, f, v in r["mentions"]:
        if getattr(getattr(params, g), f) is not v:
            raise Violation("style-sheet-value-lost", "%s.%s = %r after loading %r" % (g, f, getattr(getattr(params, g),
                                                                                              f), doc))
    ctx.label("mentions-%d" % len(r["mentions"]))
    if r["mentions"]:
        ctx.nontrivial()


# ------------------------------------------------------------------------------------- facets
_TOT_RULE = ("generated scene x draw parameters (family flags flipped, numeric knobs, id filters, windows before / "
             "inside / after horizons, 5 ways of passing parameters, optional second frame); non-trivial = >= 3 "
             "non-default parameters")
FACETS = [
    Facet("totality-obstacles", check_totality, strategy=s_totality("obstacles"), quick=400, thorough=6000,
          rule=_TOT_RULE, timeout_quick=900),
    Facet("totality-map", check_totality, strategy=s_totality("map"), quick=350, thorough=6000, rule=_TOT_RULE,
          timeout_quick=900),
    Facet("totality-planning", check_totality, strategy=s_totality("planning"), quick=120, thorough=2000,
          rule=_TOT_RULE, timeout_quick=900),
    Facet("totality-all", check_totality, strategy=s_totality("all"), quick=200, thorough=4000, rule=_TOT_RULE,
          timeout_quick=900),
    Facet("obstacle-content", check_content, strategy=s_content, quick=450, thorough=6000, timeout_quick=900,
          rule="statement's configuration, exact states, <= 5 obstacles of all roles x windows; non-trivial = "
               "time_begin > 0 and >= 1 obstacle has and >= 1 lacks an occupancy there"),
    Facet("lanelet-selection", check_lanelets, strategy=s_lanelets, quick=300, thorough=3000, timeout_quick=900,
          rule="1-5 lanelets x draw_ids (None / subsets / empty / foreign ids) x lanelet and intersection flags; "
               "non-trivial = proper non-empty subset selected"),
    Facet("style-sheet", check_style_sheet, strategy=s_style_sheet, quick=600, thorough=20000,
          rule="partial YAML style sheets (top-level window / antialiasing, 0-3 nested groups mentioned with one flag "
               "each) loaded with MPDrawParams.load: window and antialiasing reach every group, mentioned flags are "
               "kept; non-trivial = >= 1 nested group mentioned"),
    Facet("propagation", check_propagation, strategy=s_propagation, quick=5000, thorough=100000,
          rule="every BaseParam subclass x every group of its tree x every field declared at or below it x "
               "setattr / item assignment / constructor keyword, optionally after replacing a nested group; "
               "non-trivial = value checked on >= 2 groups, one of them nested"),
]
