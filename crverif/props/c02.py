"""C02 - protobuf write->read is lossless."""
import warnings

from hypothesis import strategies as st

from crverif.core import Facet, Violation
from crverif.gen import fileprofile as fp
from crverif.props import fileio

RULE = ("round trip against the recipe: snapshot(read-back) vs snapshot(build(recipe)); every real bit-identical "
        "(float.hex), discrete values identical, absent optional data stays absent")
ASSUMPTIONS = [
    "domain as in C01 (initial time step 0, dynamic obstacles with prediction, convention shapes for dynamic obstacles) "
    "restricted to enum members whose NAME exists in the *_pb2 enums (computed from the descriptors), plus what only "
    "protobuf carries: horn, sign virtual + first occurrences, static-obstacle signal states, PM / STD trajectory states",
    "state class identity only for specific classes; CustomState originals are compared by attributes and values",
    "None location == default Location (documented)"]


def tolerance(d):
    return lambda path: 0   # the format stores doubles: bit-identical


def nontrivial(r):
    for o in r["obstacles"]:
        if o.get("signal0") or o.get("signals"):
            return True
        for s in ([o.get("init")] if o.get("init") else []) + (
                o["pred"]["traj"]["states"] if o.get("pred") and o["pred"]["k"] == "traj" else []):
            if any(isinstance(v, dict) for v in s["a"].values()):
                return True
    if any(s.get("virtual") for s in r["signs"]) or any(l.get("active") is False or l.get("direction") not in (
            None, "ALL") or (l.get("offset") or 0) > 0 for l in r["lights"]):
        return True
    if any(l.get("stop_line") for l in r["lanelets"]) or r["intersections"]:
        return True
    return any(p["goal"]["lanelets"] for p in r["pps"])


def check(r, ctx):
    with warnings.catch_warnings():
        warnings.simplefilter("ignore")
        data, sc2, pps2 = fileio.roundtrip(r, "pb")
        diffs = fileio.compare_roundtrip(r, "pb", sc2, pps2, tolerance(r["decimals"]))
    fileio.raise_first(diffs, fmt="pb")
    ctx.label("decimals-%d" % r["decimals"])
    for o in r["obstacles"]:
        ctx.label("obstacle-" + o["role"])
        if o.get("pred"):
            ctx.label("pred-" + o["pred"]["k"])
            if o["pred"]["k"] == "traj":
                ctx.label("traj-cls-" + o["pred"]["traj"]["states"][0]["cls"])
    ctx.label("signs-%d" % min(len(r["signs"]), 2))
    ctx.label("lights-%d" % min(len(r["lights"]), 2))
    ctx.label("pps-%d" % len(r["pps"]))
    if nontrivial(r):
        ctx.nontrivial()


NOVIRT = {}


WRITER_USE = st.one_of(
    st.just({}), st.just({}),
    st.tuples(st.sampled_from(["xml", "pb"]), st.integers(1, 12)).map(lambda t: {"decoy": list(t)}),
    st.just({"reuse": True}), st.just({"reuse": "edited"}), st.just({"read_la": True}), st.just({"open_rings": True}), st.just({"pre_use": True}), st.just({"network_only": True}), st.just({"reuse": "full"}), st.just({"read_twice": True}))


def force_virtual(r):
    r["signs"][0]["virtual"] = True
    return r


def s_virtual(tier):
    return st.tuples(fp.file_scenario("pb", max_lanelets=3, max_obstacles=0, max_pps=0), st.booleans(), WRITER_USE).map(
        lambda t: dict(t[0], use_scenario_meta=t[1], **t[2])).filter(lambda r: len(r["signs"]) > 0).map(force_virtual)


def s_whole(tier):
    return st.tuples(fp.file_scenario("pb", extra_profile=NOVIRT), st.booleans(), WRITER_USE).map(lambda t: dict(t[0], use_scenario_meta=t[1], **t[2]))


def s_network(tier):
    return st.tuples(fp.file_scenario("pb", max_lanelets=8, max_obstacles=0, max_pps=0, extra_profile=NOVIRT), st.booleans(), WRITER_USE).map(
        lambda t: dict(t[0], use_scenario_meta=t[1], **t[2]))


def s_obstacles(tier):
    return st.tuples(fp.file_scenario("pb", max_lanelets=2, max_obstacles=6, max_pps=0, extra_profile=NOVIRT), st.booleans(), WRITER_USE).map(
        lambda t: dict(t[0], use_scenario_meta=t[1], **t[2]))


def s_pps(tier):
    return st.tuples(fp.file_scenario("pb", max_lanelets=3, max_obstacles=0, max_pps=3, min_pps=1, extra_profile=NOVIRT), st.booleans(), WRITER_USE).map(
        lambda t: dict(t[0], use_scenario_meta=t[1], **t[2]))


PB_ONLY = {"t0": st.integers(0, 6), "allow_no_prediction": True, "empty_cycles": True, "time_bounds": True}


def s_pb_only(tier):
    return st.tuples(fp.file_scenario("pb", max_lanelets=3, max_obstacles=6, max_pps=2, extra_profile=PB_ONLY),
                     st.booleans(), WRITER_USE).map(lambda t: dict(t[0], use_scenario_meta=t[1], **t[2]))


FACETS = [
    Facet("pb-only-domain", check, strategy=s_pb_only, quick=900, thorough=50000,
          rule="what the protobuf format can carry beyond the 2020a XML schema: initial time steps 0..6 (obstacles and "
               "planning problems), dynamic obstacles without prediction, PM / STD trajectory states, static-obstacle "
               "signal states, predictions with their own shape, lights whose cycle has no elements (active flag "
               "set afterwards), environment times at the documented bounds 24 h / 60 min"),
    Facet("sign-virtual", check, strategy=s_virtual, quick=150, thorough=3000,
          rule="networks with >= 1 virtual traffic sign (the only facet that generates virtual=True)"),
    Facet("network", check, strategy=s_network, quick=900, thorough=50000,
          rule="lanelet networks with signs, lights, stop lines, intersections x precision 1..12; non-trivial = has a "
               "stop line / intersection / virtual sign / inactive, directed or offset light"),
    Facet("obstacles", check, strategy=s_obstacles, quick=1200, thorough=60000,
          rule="static / dynamic (trajectory of every expressible state class incl. custom subsets, or occupancy set) / "
               "phantom / environment obstacles, exact / interval / region values, signal states; non-trivial = has "
               "signal states or an uncertain attribute"),
    Facet("planning-problems", check, strategy=s_pps, quick=900, thorough=50000,
          rule="1-3 planning problems, initial state with/without acceleration, 1-3 goal states with shape(s) of one "
               "kind or lanelet references; non-trivial = goal lanelets present"),
    Facet("whole", check, strategy=s_whole, quick=900, thorough=50000,
          rule="whole scenarios x planning-problem sets x header/location/tags x precision"),
]
