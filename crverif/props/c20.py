"""C20 - lanelet arc-length geometry and successor-route enumeration."""
import math
import warnings
import sys

import numpy as np
from hypothesis import strategies as st

from commonroad.scenario.lanelet import Lanelet, LaneletNetwork

from crverif.core import Facet, Violation
from crverif.gen import geometry as gg
from crverif.gen.values import angle, point
from crverif.oracle import geom

RULE = "own arc-length parametrisation of the centre polyline; validity predicate for enumerated routes"
ASSUMPTIONS = ["centre polylines with >= 2 vertices and distinct consecutive points",
               "route enumeration is decided up to a deterministic step budget (5e6 traced lines on graphs with <= 8 "
               "lanelets and out-degree <= 3; a legitimate enumeration needs < 3e5)",
               "tolerances 1e-9 * (1 + scale)"]


def np_poly(v):
    return np.array(v, dtype=float)


def make_lanelet(ll, lid=1, **kw):
    return Lanelet(np_poly(ll["left"]), np_poly(ll["center"]), np_poly(ll["right"]), lid, **kw)


# ----------------------------------------------------------------------------------------------- arc length
def s_arclength(tier):
    base = st.one_of(
        gg.lanelet_polylines(2, 12, 1e-3, 50.0),
        gg.lanelet_polylines(2, 4, 1.0, 20.0),
        gg.lanelet_polylines(2, 2, 1e-3, 50.0),
        gg.lanelet_polylines(3, 8, 1.0, 10.0).map(straighten),
    )
    return st.tuples(base, st.lists(st.tuples(st.sampled_from(["zero", "full", "vertex", "interior", "near-vertex",
                                                               "frac"]),
                                               st.integers(0, 20), st.floats(0, 1),
                                               st.sampled_from([1e-12, -1e-12, 1e-9, -1e-9, 1e-6])),
                                    min_size=1, max_size=6), st.integers(0, 11),
                     st.one_of(st.none(), st.none(), st.none(), st.lists(st.floats(-5, 5), min_size=2, max_size=12)),
                     st.one_of(st.none(), st.none(), st.tuples(st.tuples(st.floats(-50, 50), st.floats(-50, 50)).map(list),
                                                               st.floats(-6.28, 6.28)).map(list))).map(
        lambda t: {"ll": strip(t[0]), "q": t[1], "drawn": t[2] == 0, "z": t[3], "motion": t[4]}).flatmap(
        lambda d: st.one_of(st.none(), st.none(), st.floats(0.15, 0.85)).map(lambda f: dict(d, centre_at=f)))


def strip(ll):
    return {"left": ll["left"], "right": ll["right"], "center": ll["center"]}


def straighten(ll):
    """Collinear run: project every vertex onto the first segment's direction (keeps distinct consecutive points)."""
    c = ll["center"]
    d = [c[1][0] - c[0][0], c[1][1] - c[0][1]]
    n = math.hypot(*d)
    d = [d[0] / n, d[1] / n]
    nrm = [-d[1], d[0]]
    w = ll["w"]
    acc = 0.0
    cen, left, right = [], [], []
    for i, p in enumerate(c):
        if i > 0:
            acc += geom.dist(c[i - 1], p)
        q = [c[0][0] + acc * d[0], c[0][1] + acc * d[1]]
        cen.append(q)
        left.append([q[0] + w * nrm[0], q[1] + w * nrm[1]])
        right.append([q[0] - w * nrm[0], q[1] - w * nrm[1]])
    return dict(ll, center=cen, left=left, right=right)


def ndist(p, q):
    """Euclidean distance of two points of any (equal) dimension."""
    return math.sqrt(sum((float(a) - float(b)) ** 2 for a, b in zip(p, q)))


def lerp(p, q, t):
    return [float(a) + t * (float(b) - float(a)) for a, b in zip(p, q)]


def cumdist(c):
    d = [0.0]
    for i in range(1, len(c)):
        d.append(d[-1] + ndist(c[i - 1], c[i]))
    return d


def check_arclength(r, ctx):
    ll = r["ll"]
    c = ll["center"]
    for i in range(1, len(c)):
        if ndist(c[i - 1], c[i]) < 1e-6:
            ctx.discard("coincident-vertices")
    if r.get("centre_at") is not None:
        # the centre line is an independent constructor argument: here it is not the mid line of the bounds
        f = r["centre_at"]
        ll = dict(ll, center=[[q[0] + f * (p[0] - q[0]), q[1] + f * (p[1] - q[1])] for p, q in zip(ll["left"],
                                                                                            ll["right"])])
        c = ll["center"]
        for i in range(1, len(c)):
            if geom.dist(c[i - 1], c[i]) < 1e-6:
                ctx.discard("coincident-vertices")
        ctx.label("centre-not-mid-line")
    if r.get("z"):
        # polylines may carry a z coordinate (documented: convert_to_2d exists for them); arc length is the 3D length
        zs = [r["z"][i % len(r["z"])] for i in range(len(c))]
        ll = {k: [[p[0], p[1], z] for p, z in zip(ll[k], zs)] for k in ("left", "center", "right")}
        c = ll["center"]
        ctx.label("3d-polylines")
    lan = make_lanelet(ll)
    if r.get("motion") and not r.get("z"):
        # the lanelet has been used (its geometry is memoised) and is then moved: it is the lanelet of the moved lines
        t, a = r["motion"]
        lan.distance, lan.inner_distance, lan.polygon
        lan.interpolate_position(float(lan.distance[-1]) / 2)
        lan.translate_rotate(np.array(t, dtype=float), a)
        ll = {k: [geom.rigid(p, t, a) for p in ll[k]] for k in ("left", "center", "right")}
        ctx.label("moved-after-use")
    if r.get("drawn") and not r.get("z"):
        lan = draw_behind_a_light(lan, ll)
        ctx.label("drawn-before-queries")
    if validate_arclength(lan, ll, r["q"], ctx):
        ctx.nontrivial()


def draw_behind_a_light(lan, ll):
    """Ordinary prior use of the lanelet: it is part of a network, follows a lanelet with a traffic light, and the
    network has been drawn (drawing only reads)."""
    import matplotlib
    matplotlib.use("Agg")
    from matplotlib.backends.backend_agg import FigureCanvasAgg
    from matplotlib.figure import Figure
    from commonroad.scenario.traffic_light import (TrafficLight, TrafficLightCycle, TrafficLightCycleElement,
                                                   TrafficLightState)
    from commonroad.visualization.mp_renderer import MPRenderer
    l0, c0, r0 = (np.array(ll[k][0], dtype=float) for k in ("left", "center", "right"))
    back = np.array(ll["center"][0], dtype=float) - np.array(ll["center"][1], dtype=float)
    back = 5.0 * back / np.linalg.norm(back)
    pre = Lanelet(np.array([l0 + back, l0]), np.array([c0 + back, c0]), np.array([r0 + back, r0]), 2, successor=[1],
                  traffic_lights={7})
    lan.predecessor = [2]
    light = TrafficLight(7, c0 + np.array([0.5, 0.5]), TrafficLightCycle(
        [TrafficLightCycleElement(TrafficLightState.RED, 2), TrafficLightCycleElement(TrafficLightState.GREEN, 2)]))
    net = LaneletNetwork.create_from_lanelet_list([pre, lan], cleanup_ids=False)
    net.add_traffic_light(light, {2})
    fig = Figure(figsize=(3, 2), dpi=40)
    FigureCanvasAgg(fig)
    rnd = MPRenderer(ax=fig.add_subplot(111))
    with warnings.catch_warnings():
        warnings.simplefilter("ignore")
        net.draw(rnd)
        rnd.render()
    return net.find_lanelet_by_id(1)     # (the network works on its own copies of the lanelets it was given)


def validate_arclength(lan, ll, queries, ctx, tag=""):
    c = ll["center"]
    ref = cumdist(c)
    total = ref[-1]
    scale = 1 + total + max(abs(x) for p in c for x in p)
    tol = 1e-9 * scale
    d = np.asarray(lan.distance, dtype=float)
    if len(d) != len(c):
        raise Violation(tag + "distance-length", "%d values for %d vertices" % (len(d), len(c)))
    if d[0] != 0:
        raise Violation(tag + "distance-start", repr(d[0]))
    if any(d[i + 1] < d[i] for i in range(len(d) - 1)):
        raise Violation(tag + "distance-not-monotone", repr(d.tolist()))
    if any(abs(d[i] - ref[i]) > tol for i in range(len(d))):
        raise Violation(tag + "distance-values", "%r vs reference %r" % (d.tolist(), ref))
    nt = False
    for kind, k, f, eps in queries:
        if kind == "zero":
            s = 0.0
        elif kind == "full":
            s = float(d[-1])
        elif kind == "vertex":
            s = float(d[k % len(d)])
        elif kind == "near-vertex":
            s = float(d[k % len(d)]) + eps
        elif kind == "interior":
            i = k % (len(d) - 1)
            s = float(d[i] + (0.05 + 0.9 * f) * (d[i + 1] - d[i]))
        else:
            s = f * float(d[-1])
        s = min(max(s, 0.0), float(d[-1]))
        pc, pr, pl, idx = lan.interpolate_position(s)
        idx = int(idx)
        if not (0 <= idx < len(c) - 1):
            raise Violation(tag + "segment-index-range", "s=%r -> idx %r with %d vertices" % (s, idx, len(c)))
        if not (d[idx] - tol <= s <= d[idx + 1] + tol):
            raise Violation(tag + "segment-index", "s=%r not in [d[%d], d[%d]] = [%r, %r]" % (s, idx, idx + 1, d[idx],
                                                                                      d[idx + 1]))
        # own parametrisation: the centre point at arc length s
        j = 0
        while j < len(ref) - 2 and ref[j + 1] < s:
            j += 1
        seg = ref[j + 1] - ref[j]
        t = (s - ref[j]) / seg
        exp_c = lerp(c[j], c[j + 1], t)
        if ndist(exp_c, pc) > tol:
            raise Violation(tag + "centre-point", "s=%r: got %r expected %r" % (s, list(pc), exp_c))
        # right / left at the same parameter of the segment the library reports
        tt = (s - ref[idx]) / (ref[idx + 1] - ref[idx])
        for name, got, line in (("right", pr, ll["right"]), ("left", pl, ll["left"])):
            exp = lerp(line[idx], line[idx + 1], tt)
            # the parameter is only determined up to tol/segment length
            slack = tol + abs(tol / (ref[idx + 1] - ref[idx])) * ndist(line[idx], line[idx + 1])
            if ndist(exp, got) > slack:
                raise Violation(tag + "%s-point" % name, "s=%r idx=%d: got %r expected %r" % (s, idx, list(got), exp))
        ctx.label(tag + "s-" + kind)
        if kind in ("zero", "full", "vertex", "near-vertex"):
            nt = True
    return nt


# ----------------------------------------------------------------------------------------------- merge
def s_merge(tier):
    def second(first):
        end = first["center"][-1]
        h = first["heads"][-1]
        return st.tuples(st.just(first), st.sampled_from(["joined", "joined", "gap"]), st.floats(0.5, 5.0)).flatmap(
            lambda t: gg.lanelet_polylines(2, 6, 1.0, 15.0, w_min=first["w"], w_max=first["w"],
                                           start=end if t[1] == "joined" else
                                           [end[0] + t[2] * math.cos(h), end[1] + t[2] * math.sin(h)],
                                           heading=h).map(lambda sec: {"a": strip(first), "b": strip(sec),
                                                                       "mode": t[1]}))
    return st.tuples(gg.lanelet_polylines(2, 6, 1.0, 15.0), st.booleans(), st.booleans()).flatmap(
        lambda t: second(t[0]).map(lambda d: dict(d, link_succ=t[1], swap=t[2]))).flatmap(
        lambda d: st.booleans().map(lambda b: dict(d, prequery=b)))


def check_merge(r, ctx):
    a, b = r["a"], r["b"]
    kw1, kw2 = {}, {}
    if r["link_succ"]:
        kw1["successor"] = [2]
    else:
        kw2["predecessor"] = [1]
    l1 = make_lanelet(a, 1, **kw1)
    l2 = make_lanelet(b, 2, **kw2)
    if r.get("prequery"):
        # both lanelets have been in ordinary use: their lazily computed geometry exists before the merge
        for la in (l1, l2):
            la.distance, la.inner_distance, la.polygon
            la.interpolate_position(float(la.distance[-1]) / 2)
        ctx.label("merged-after-use")
    merged = Lanelet.merge_lanelets(l2, l1) if r["swap"] else Lanelet.merge_lanelets(l1, l2)
    joined = r["mode"] == "joined"
    scale = 1 + max(abs(x) for p in a["center"] + b["center"] for x in p)
    tol = 1e-9 * scale
    for name in ("left", "right", "center"):
        exp = a[name] + (b[name][1:] if joined else b[name])
        got = np.asarray(getattr(merged, name + "_vertices"), dtype=float).tolist()
        if len(got) != len(exp) or any(geom.dist(p, q) > tol for p, q in zip(got, exp)):
            raise Violation("merge-%s" % name, "mode=%s got %d vertices, expected %d: %r vs %r" % (
                r["mode"], len(got), len(exp), got, exp))
    if joined:
        exp_len = geom.polyline_length(a["center"]) + geom.polyline_length(b["center"])
        if abs(float(merged.distance[-1]) - exp_len) > 1e-9 * (1 + exp_len):
            raise Violation("merge-length", "%r vs %r" % (float(merged.distance[-1]), exp_len))
        # the merged lanelet is a lanelet: its arc-length geometry must be that of the concatenated centre line
        mll = {name: a[name] + b[name][1:] for name in ("left", "right", "center")}
        qs = [["vertex", k, 0.0, 0.0] for k in range(len(mll["center"]))] + [["interior", k, 0.37, 0.0]
                                                                               for k in range(len(mll["center"]) - 1)]
        validate_arclength(merged, mll, qs, ctx, tag="merged-")
    if r.get("prequery"):
        # merging only reads its arguments: the parts are still the lanelets of their own lines - also when the merge is
        # repeated with the same parts
        for part, pll, nm in ((l1, a, "first"), (l2, b, "second")):
            qs = [["vertex", k, 0.0, 0.0] for k in range(len(pll["center"]))]
            validate_arclength(part, pll, qs, ctx, tag="part-%s-after-merge-" % nm)
        again = Lanelet.merge_lanelets(l2, l1) if r["swap"] else Lanelet.merge_lanelets(l1, l2)
        if joined and abs(float(again.distance[-1]) - float(merged.distance[-1])) > 1e-9 * (1 + float(merged.distance[-1])):
            raise Violation("merge-not-repeatable", "second merge of the same parts has length %r, the first %r" % (
                float(again.distance[-1]), float(merged.distance[-1])))
    if not joined:
        # parts that do not touch: all vertices are kept, and the merged lanelet is again the lanelet of its own lines
        mll = {name: a[name] + b[name] for name in ("left", "right", "center")}
        qs = [["vertex", k, 0.0, 0.0] for k in range(len(mll["center"]))] + [["interior", k, 0.37, 0.0]
                                                                               for k in range(len(mll["center"]) - 1)]
        validate_arclength(merged, mll, qs, ctx, tag="merged-gap-")
    ctx.label(r["mode"])
    ctx.label("swapped-args" if r["swap"] else "pred-first")
    ctx.nontrivial()


# ----------------------------------------------------------------------------------------------- routes
class StepBudget(Exception):
    pass


def run_with_step_budget(fn, budget=5_000_000):
    count = [0]

    def tracer(frame, event, arg):
        if event == "line":
            count[0] += 1
            if count[0] > budget:
                raise StepBudget()
        return tracer

    def global_tracer(frame, event, arg):
        if frame.f_code.co_name in ("find_lanelet_successors_in_range", "find_lanelet_predecessors_in_range"):
            return tracer
        return None

    old = sys.gettrace()
    sys.settrace(global_tracer)
    try:
        return fn(), count[0]
    finally:
        sys.settrace(old)


def s_routes(tier):
    def graph(n):
        edge = st.tuples(st.integers(0, n - 1), st.integers(0, n - 1)).filter(lambda e: e[0] != e[1])
        return st.fixed_dictionaries({
            "n": st.just(n),
            "edges": st.lists(edge, min_size=0, max_size=min(3 * n, 14), unique=True),
            "lengths": st.lists(st.one_of(st.integers(1, 30).map(float), st.floats(1.0, 30.0)), min_size=n, max_size=n),
            "start": st.integers(0, n - 1),
            "range": st.one_of(st.floats(0.5, 120.0), st.integers(1, 100).map(float)),
            "shape": st.sampled_from(["free", "chain", "cycle", "diamond", "braid", "shortcut"]),
            # lanelet ids: 1..n, or ids whose decimal concatenations coincide (merged lanelets are numbered by
            # concatenating the ids of their parts: 1|2|34 = 1|23|4, 1|2|3 = 1|23), or a draw from such a pool
            "ids": st.one_of(st.none(), st.none(), st.just("concat"),
                             st.lists(st.sampled_from(ID_POOL), min_size=n, max_size=n, unique=True)),
            "range_mask": st.one_of(st.just(0), st.integers(1, 255)),
            # lanelets with a right-angle bend: same centre-line length, shorter inner boundary
            "bends": st.one_of(st.just([False] * n), st.lists(st.booleans(), min_size=n, max_size=n)),
            "drop_mask": st.one_of(st.just(0), st.just(0), st.integers(1, 255)),
        })
    return st.integers(2, 8).flatmap(graph)


ID_POOL = [1, 2, 3, 4, 5, 6, 12, 23, 34, 45, 123, 234]
CONCAT_IDS = {"braid": [1, 2, 34, 23, 4, 5, 6, 7], "shortcut": [1, 2, 3, 23, 4, 5, 6, 7]}


def lanelet_ids(r):
    n = r["n"]
    ids = r.get("ids")
    if ids == "concat":
        return CONCAT_IDS.get(r["shape"], [1, 2, 12, 3, 23, 4, 34, 123])[:n]
    return list(ids) if ids else list(range(1, n + 1))


def graph_edges(r):
    n = r["n"]
    edges = set(tuple(e) for e in r["edges"])
    if r["shape"] == "braid" and n >= 6:
        # two two-hop branches that join again: 0 -> 1 -> 2 -> 5 and 0 -> 3 -> 4 -> 5
        edges |= {(0, 1), (1, 2), (2, 5), (0, 3), (3, 4), (4, 5)} | {(i, i + 1) for i in range(5, n - 1)}
    elif r["shape"] == "shortcut" and n >= 5:
        # a two-hop branch and a one-hop short cut: 0 -> 1 -> 2 -> 4 and 0 -> 3 -> 4
        edges |= {(0, 1), (1, 2), (2, 4), (0, 3), (3, 4)} | {(i, i + 1) for i in range(4, n - 1)}
    if r["shape"] == "chain":
        edges |= {(i, i + 1) for i in range(n - 1)}
    elif r["shape"] == "cycle":
        edges |= {(i, (i + 1) % n) for i in range(n)}
    elif r["shape"] == "diamond" and n >= 4:
        edges |= {(0, 1), (0, 2), (1, 3), (2, 3)} | {(i, i + 1) for i in range(3, n - 1)}
    edges = {e for e in edges if e[0] != e[1]}
    # out-degree <= 3 keeps the number of simple paths small
    out = {}
    keep = set()
    for e in sorted(edges):
        if out.get(e[0], 0) < 3:
            keep.add(e)
            out[e[0]] = out.get(e[0], 0) + 1
    return keep


STRUCTURES = {
    # node -> (junction it starts at, junction it ends at); a lanelet's successors start where it ends
    "chain": [(0, 1), (1, 2), (2, 3), (3, 4), (4, 5), (5, 6)],
    "diamond": [(0, 1), (1, 2), (1, 2), (2, 3), (3, 4), (4, 5)],
    "braid": [(0, 1), (1, 2), (2, 4), (1, 3), (3, 4), (4, 5), (5, 6)],
    "shortcut": [(0, 1), (1, 2), (2, 3), (1, 3), (3, 4), (4, 5)],
}


def s_merged_routes(tier):
    def build(shape):
        nodes = STRUCTURES[shape]
        nj = max(max(a, b) for a, b in nodes) + 1
        lo = {"chain": 2, "diamond": 4, "braid": 6, "shortcut": 5}[shape]
        return st.integers(lo, len(nodes)).flatmap(lambda n: st.fixed_dictionaries({
            "shape": st.just(shape), "n": st.just(n),
            "junctions": st.lists(st.tuples(st.floats(-3, 3), st.floats(-5, 5)).map(list), min_size=nj, max_size=nj),
            "bumps": st.lists(st.one_of(st.floats(-3, 3), st.integers(-3, 3).map(float)), min_size=n, max_size=n),
            "ids": st.one_of(st.none(), st.just("concat"), st.just("concat"),
                             st.lists(st.sampled_from(ID_POOL), min_size=n, max_size=n, unique=True)),
            "start": st.one_of(st.just(0), st.just(n - 1), st.integers(0, n - 1)),
            "range": st.one_of(st.just(1000.0), st.floats(5.0, 80.0)),
            "prequery": st.booleans()}))
    return st.sampled_from(sorted(STRUCTURES)).flatmap(build)


def check_merged_routes(r, ctx):
    """all_lanelets_by_merging_{successors,predecessors}_from_lanelet on networks whose lanelets really are joined end
    to start: one merged lanelet per route of the range search, each made of exactly the lanelets of its own route
    (boundaries concatenated in driving order, the joint vertices kept once), length = sum of the parts."""
    n = r["n"]
    nodes = STRUCTURES[r["shape"]][:n]
    ids = lanelet_ids(r)
    junction = [[10.0 * j + d[0], d[1]] for j, d in enumerate(r["junctions"])]
    succ = {i: [j for j in range(n) if nodes[j][0] == nodes[i][1]] for i in range(n)}
    pred = {i: [j for j in range(n) if nodes[j][1] == nodes[i][0]] for i in range(n)}
    lanelets = []
    for i, (a, b) in enumerate(nodes):
        p, q = junction[a], junction[b]
        mid = [(p[0] + q[0]) / 2, (p[1] + q[1]) / 2 + r["bumps"][i]]
        centre = np.array([p, mid, q])
        lanelets.append(Lanelet(centre + np.array([0.0, 1.0]), centre, centre - np.array([0.0, 1.0]), ids[i],
                                predecessor=[ids[j] for j in pred[i]], successor=[ids[j] for j in succ[i]]))
    if r["prequery"]:
        for la in lanelets:
            la.distance
            la.polygon
    net = LaneletNetwork.create_from_lanelet_list(lanelets, cleanup_ids=False)
    by_id = {x.lanelet_id: x for x in lanelets}
    index_of = {lid: i for i, lid in enumerate(ids)}
    la = net.find_lanelet_by_id(ids[r["start"]])
    seen_multi = False
    for direction, rel in (("succ", succ), ("pred", pred)):
        fn = (Lanelet.all_lanelets_by_merging_successors_from_lanelet if direction == "succ"
              else Lanelet.all_lanelets_by_merging_predecessors_from_lanelet)
        search = la.find_lanelet_successors_in_range if direction == "succ" else la.find_lanelet_predecessors_in_range
        paths = search(net, max_length=r["range"])
        if direction == "pred":
            # merged lanelets are numbered by decimal concatenation; walking backwards (3, then 2 -> "23") such a number
            # can be the id of a lanelet of the network, and merge_lanelets - which finds out from the ids alone which
            # of its two arguments comes first - is then undecided. The statement says nothing about that situation.
            numbers = set()
            for path in paths:
                acc = str(la.lanelet_id)
                for q in path:
                    acc = str(q) + acc
                    numbers.add(int(acc))
            if numbers & set(ids):
                ctx.label("pred-skipped-merged-number-is-a-lanelet-id")
                continue
        merged, routes = fn(la, net, max_length=r["range"])
        if len(merged) != len(routes):
            raise Violation("merged-routes-%s-count" % direction, "%d merged lanelets for %d routes" % (
                len(merged), len(routes)))
        expected = [[la.lanelet_id] + list(p) for p in paths] if rel[r["start"]] else [[la.lanelet_id]]
        if sorted(map(list, routes)) != sorted(expected):
            raise Violation("merged-routes-%s-route-list" % direction, "routes %r, the range search gives %r" % (
                routes, expected))
        for m, route in zip(merged, routes):
            for u, v in zip(route, route[1:]):
                if index_of[v] not in rel[index_of[u]]:
                    raise Violation("merged-routes-%s-not-a-link" % direction, "%r: %d -> %d" % (route, u, v))
            order = list(route) if direction == "succ" else list(reversed(route))
            for name in ("left_vertices", "center_vertices", "right_vertices"):
                parts = [getattr(by_id[q], name) for q in order]
                ref = np.concatenate([parts[0]] + [x[1:] for x in parts[1:]])
                got = np.asarray(getattr(m, name), dtype=float)
                if got.shape != ref.shape or not (abs(got - ref) <= 1e-9).all():
                    raise Violation("merged-routes-%s-geometry" % direction, "route %r: %s of the merged lanelet is %r, "
                                    "its parts in driving order give %r" % (route, name, got.tolist(), ref.tolist()))
            total = sum(float(by_id[q].distance[-1]) for q in order)
            d = np.asarray(m.distance, dtype=float)
            if abs(d[0]) > 0 or (np.diff(d) < 0).any() or abs(float(d[-1]) - total) > 1e-9 * (1 + total):
                raise Violation("merged-routes-%s-length" % direction, "route %r: distance %r, parts sum to %r" % (
                    route, d.tolist(), total))
            if len(route) > 2:
                seen_multi = True
        ctx.label("%s-routes-%d" % (direction, min(len(routes), 3)))
    ctx.label("shape-" + r["shape"])
    ctx.label("ids-" + ("default" if r["ids"] is None else r["ids"] if isinstance(r["ids"], str) else "pool"))
    if seen_multi:
        ctx.nontrivial()


def check_routes(r, ctx):
    n = r["n"]
    edges = graph_edges(r)
    succ = {i: sorted(j for (a, j) in edges if a == i) for i in range(n)}
    pred = {i: sorted(a for (a, j) in edges if j == i) for i in range(n)}
    lanelets = []
    ids = lanelet_ids(r)
    index_of = {lid: i for i, lid in enumerate(ids)}
    if ids != list(range(1, n + 1)):
        ctx.label("ids-concat" if r.get("ids") == "concat" else "ids-from-pool")
    for i in range(n):
        ln = r["lengths"][i]
        y = 10.0 * i
        if r.get("bends", [False] * n)[i] and ln >= 4.0:
            # L-shaped: two axis-aligned legs of ln/2 each, so the centre-line length is still exactly ln while the
            # left (inner) boundary is 2 shorter and the right one 2 longer
            # (the corner sits at the origin so that both leg lengths are exactly h in floating point)
            h = ln / 2
            left, centre, right = ([[-h, 1.0], [-1.0, 1.0], [-1.0, h]], [[-h, 0.0], [0.0, 0.0], [0.0, h]],
                                   [[-h, -1.0], [1.0, -1.0], [1.0, h]])
            ctx.label("bent-lanelet")
        else:
            left, centre, right = [[0.0, y + 1], [ln, y + 1]], [[0.0, y], [ln, y]], [[0.0, y - 1], [ln, y - 1]]
        lanelets.append(Lanelet(np.array(left), np.array(centre), np.array(right), ids[i],
                                predecessor=[ids[p] for p in pred[i]], successor=[ids[s] for s in succ[i]]))
    drop = {i for i in range(n) if (r.get("drop_mask", 0) >> i) & 1 and i != r["start"]}
    if drop:
        # the network is built from a subset of the lanelets (default cleanup of references to lanelets that are not
        # part of it): the routes are those of the induced sub-graph
        lanelets = [la for i, la in enumerate(lanelets) if i not in drop]
        succ = {i: [j for j in succ[i] if j not in drop] for i in range(n) if i not in drop}
        pred = {i: [j for j in pred[i] if j not in drop] for i in range(n) if i not in drop}
        net = LaneletNetwork.create_from_lanelet_list(lanelets)
        ctx.label("network-from-subset")
    else:
        net = LaneletNetwork.create_from_lanelet_list(lanelets, cleanup_ids=False)
    # the "< range" rule is decided exactly when the library's lanelet lengths are exactly the recipe's; otherwise
    # (rounding inside the length computation) an accumulated length within 1e-9 of the range is a don't-care
    exact = all(float(la.distance[-1]) == r["lengths"][index_of[la.lanelet_id]] for la in lanelets)
    start = r["start"]
    rng = r["range"]
    if r.get("range_mask"):
        # a range that is exactly the total length of some subset of lanelets (boundary of the "< range" rule)
        rng = sum(r["lengths"][i] for i in range(n) if (r["range_mask"] >> i) & 1) or rng
        ctx.label("range-equals-subset-sum")
    has_cycle = _has_cycle(succ, n)
    for direction, rel in (("succ", succ), ("pred", pred)):
        la = net.find_lanelet_by_id(ids[start])
        fn = la.find_lanelet_successors_in_range if direction == "succ" else la.find_lanelet_predecessors_in_range
        try:
            paths, steps = run_with_step_budget(lambda: fn(net, max_length=rng))
        except StepBudget:
            raise Violation("route-%s-no-termination" % direction,
                            "step budget exceeded on graph %r start %d range %r" % (sorted(edges), start, rng))
        direct = rel[start]
        heads = set()
        for p in paths:
            if any(q not in index_of for q in p):
                raise Violation("route-%s-unknown-id" % direction, "%r names a lanelet that is not in the network %r"
                                % (p, ids))
            nodes = [index_of[q] for q in p]
            if not nodes:
                raise Violation("route-%s-empty-path" % direction, repr(paths))
            if nodes[0] not in direct:
                raise Violation("route-%s-bad-head" % direction, "%r does not start at a direct neighbour %r" % (
                    p, [ids[d] for d in direct]))
            heads.add(nodes[0])
            if len(set(nodes)) != len(nodes):
                raise Violation("route-%s-repeated-node" % direction, repr(p))
            if start in nodes:
                raise Violation("route-%s-revisits-start" % direction, repr(p))
            for u, v in zip(nodes, nodes[1:]):
                if v not in rel[u]:
                    raise Violation("route-%s-not-a-link" % direction, "%r: %d -> %d" % (p, ids[u], ids[v]))
            acc = 0.0
            for k in range(len(nodes) - 1):
                acc += r["lengths"][nodes[k]]
                if not exact and abs(acc - rng) <= 1e-9 * (1 + rng):
                    ctx.band_case("range-boundary-inexact-lengths")
                    break
                if not acc < rng:  # exact: lanelets are axis-aligned, lengths and sums are computed identically
                    raise Violation("route-%s-extended-beyond-range" % direction,
                                    "%r extended after accumulated length %r >= range %r" % (p, acc, rng))
        if set(direct) - heads:
            raise Violation("route-%s-uncovered-neighbour" % direction, "direct %r, heads %r" % (
                [ids[d] for d in direct], sorted(ids[h] for h in heads)))
    lens = sorted(r["lengths"])
    ctx.label("cyclic" if has_cycle else "acyclic")
    ctx.label("shape-" + r["shape"])
    if has_cycle or r["shape"] == "diamond" or lens[0] < rng < sum(lens):
        ctx.nontrivial()


def _has_cycle(succ, n):
    color = [0] * n

    def dfs(u):
        color[u] = 1
        for v in succ[u]:
            if color[v] == 1 or (color[v] == 0 and dfs(v)):
                return True
        color[u] = 2
        return False
    return any(color[i] == 0 and dfs(i) for i in range(n) if i in succ)


FACETS = [
    Facet("arc-length", check_arclength, strategy=s_arclength, quick=8000, thorough=400000,
          rule="2-12 vertex centre lines (segments 1e-3..50, collinear runs) x s in {0, full, exactly at vertices, "
               "within 1e-12..1e-6 of vertices, interior}; non-trivial = s at an end / vertex / near a vertex"),
    Facet("merge", check_merge, strategy=s_merge, quick=3000, thorough=100000,
          rule="predecessor/successor pairs joined exactly (joint kept once, length = sum) or with a gap "
               "(concatenation), linked via successor or predecessor lists, both argument orders"),
    Facet("merged-routes", check_merged_routes, strategy=s_merged_routes, quick=2500, thorough=100000,
          rule="chain / diamond / braid / short-cut networks of lanelets joined end to start, ids 1..n or ids whose "
               "decimal concatenations coincide (merged lanelets are numbered by concatenation), lanelets fresh or "
               "used before; all_lanelets_by_merging_successors / _predecessors_from_lanelet: one merged lanelet per "
               "route of the range search, boundaries = the route's lanelets in driving order with joint vertices once, "
               "length = sum of parts; non-trivial = a route of >= 3 lanelets"),
    Facet("routes", check_routes, strategy=s_routes, quick=4000, thorough=200000,
          rule="digraphs on 2-8 lanelets (free / chain / cycle / diamond, out-degree <= 3), lengths 1-30, ranges "
               "0.5-120, successors and predecessors; non-trivial = cyclic or diamond graph or range between the "
               "shortest lanelet and the total length"),
]
