"""Shared harness vocabulary: facets, per-shard context, violations, digests, exception bucketing."""
import hashlib
import json
import math
import os
import traceback

REPO = os.path.realpath(os.environ.get("VERIF_REPO", "/repo"))
HOME = os.path.realpath(os.environ.get("VERIF_HOME", os.path.join(os.path.dirname(__file__), "..")))


class Violation(Exception):
    """The oracle rejected the behaviour observed on an in-domain case."""

    def __init__(self, kind, detail=""):
        self.kind = str(kind)
        self.detail = str(detail)
        super().__init__("%s: %s" % (self.kind, self.detail[:2000]))


class Discard(Exception):
    """The generated case is outside the facet's domain (counted, never a failure)."""


class HarnessError(Exception):
    """Something is wrong with the checking machinery itself (exit 2, never VIOLATION)."""


def normalise(x):
    """Recipes are plain JSON-able data; tuples become lists so that replayed recipes look the same."""
    if isinstance(x, (list, tuple)):
        return [normalise(v) for v in x]
    if isinstance(x, dict):
        return {str(k): normalise(v) for k, v in x.items()}
    if isinstance(x, (str, bool, int, float)) or x is None:
        return x
    try:
        import numpy as np

        if isinstance(x, np.generic):
            return x.item()
        if isinstance(x, np.ndarray):
            return normalise(x.tolist())
    except ImportError:  # pragma: no cover
        pass
    if isinstance(x, (set, frozenset)):
        return sorted(normalise(v) for v in x)
    raise HarnessError("recipe contains non-JSON-able value %r (%s)" % (x, type(x)))


def canon(x):
    return json.dumps(x, sort_keys=True, separators=(",", ":"), default=repr)


def digest(x):
    return int.from_bytes(hashlib.blake2b(canon(x).encode(), digest_size=8).digest(), "big")


def short(x, limit=1500):
    s = canon(x)
    if len(s) <= limit:
        return json.loads(s)
    return {"truncated_repr": s[:limit] + "...", "length": len(s)}


def bucket_of_exception(exc):
    """(exception type, innermost frame inside the repository's commonroad package)."""
    tb = traceback.extract_tb(exc.__traceback__)
    site = None
    root = os.path.join(REPO, "commonroad") + os.sep
    for fr in tb:
        fn = os.path.realpath(fr.filename)
        if fn.startswith(root):
            site = "%s:%s" % (os.path.relpath(fn, REPO), fr.name)
    if site is None:
        return None
    return "E:%s@%s" % (type(exc).__name__, site)


class Facet:
    """One independent generated check of a property.

    strategy:  callable(tier) -> hypothesis strategy of JSON-able recipes        (generated facets)
    enumerate: callable(tier) -> iterable of recipes (finite, complete)           (exhaustive facets)
    check:     callable(recipe, ctx) -> None, raises Violation / Discard
    """

    def __init__(self, name, check, strategy=None, enumerate=None, quick=1000, thorough=20000, rule="",
                 shards_quick=4, shards_thorough=16, timeout_quick=600, timeout_thorough=6 * 3600,
                 max_shrink_s=60):
        self.name = name
        self.check = check
        self.strategy = strategy
        self.enumerate = enumerate
        self.quick = quick
        self.thorough = thorough
        self.rule = rule
        self.shards_quick = shards_quick
        self.shards_thorough = shards_thorough
        self.timeout_quick = timeout_quick
        self.timeout_thorough = timeout_thorough
        self.max_shrink_s = max_shrink_s


class Ctx:
    """Per-shard bookkeeping handed to every check call."""

    MAX_SAMPLES = 3

    def __init__(self, prop, facet, tier, seed):
        self.prop = prop
        self.facet = facet
        self.tier = tier
        self.seed = seed
        self.cases = 0
        self.nontrivial_digests = set()
        self.nontrivial_cases = 0
        self.band = 0
        self.discards = {}
        self.classes = {}
        self.samples = []
        self.excluded = {}
        self.recipe = None
        self.last_failure = None
        self.replaying = False

    def begin(self, recipe):
        self.recipe = recipe
        self.cases += 1

    def label(self, name, n=1):
        self.classes[name] = self.classes.get(name, 0) + n

    def nontrivial(self, key=None):
        """Mark the current case as non-trivial; distinctness is by digest of key (default: the recipe)."""
        d = digest([self.facet, self.recipe if key is None else key])
        self.nontrivial_cases += 1
        if d not in self.nontrivial_digests:
            self.nontrivial_digests.add(d)
            if len(self.samples) < self.MAX_SAMPLES:
                self.samples.append(short(self.recipe))

    def band_case(self, name="band"):
        self.band += 1
        self.label(name)

    def discard(self, reason="discard"):
        self.discards[reason] = self.discards.get(reason, 0) + 1
        raise Discard(reason)

    def result(self):
        return {
            "facet": self.facet,
            "seed": self.seed,
            "cases": self.cases,
            "nontrivial_cases": self.nontrivial_cases,
            "digests": self.nontrivial_digests,
            "band": self.band,
            "discards": self.discards,
            "classes": self.classes,
            "samples": self.samples,
            "excluded": self.excluded,
        }


def close(a, b, tol):
    return abs(a - b) <= tol or (math.isinf(a) and a == b)


def require(cond, kind, detail=""):
    if not cond:
        raise Violation(kind, detail() if callable(detail) else detail)
