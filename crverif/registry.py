"""Which properties are claimed (source of MANIFEST.json, see bin/mkmanifest)."""
ALL = ["C%02d" % i for i in range(1, 21)]
NOTES = ("Every check is bin/check <ID>: Hypothesis-generated (or exhaustively enumerated) cases against an explicit "
         "oracle; see DESIGN.md. VERIF_SEED selects the derived shard seeds; VERIF_REPO (default /repo) the tree.")

CHECKS = {
    "C17": {
        "technique": "property-based testing: exhaustive small-domain enumeration + Hypothesis generation against a "
                     "reference period list",
        "text": "All cycles with <=3 elements, durations 1-4, offsets 0-5 at t in [-12,40] are enumerated completely; "
                "larger cycles/time steps are sampled (thousands per run), also for lights / cycles that were used "
                "before and reach the definition through the offset / elements setters or a new cycle, with the "
                "'active' flags on and off, and for lights written to and read back from XML / protobuf files. "
                "Exploration only: no absence claim beyond the enumerated sub-domain.",
        "note": "Trusts the reference (list indexing by (t-offset) mod total) and that durations are positive ints.",
    },
    "C16": {
        "technique": "property-based testing: Hypothesis generation against Fraction-exact closed-set semantics and "
                     "arc semantics, plus an exhaustively enumerated pi/8 grid",
        "text": "Tens of thousands of generated interval/query/scalar combinations per run (ints, floats, numpy "
                "scalars, ends +-1ulp, arcs shorter/equal/longer than pi, wrapping images) compared with exact set "
                "semantics; the interval under test is also reached through the start / end setters after a first "
                "query and as deepcopy / copy / pickle; a pi/8 grid is enumerated completely. Exploration: no absence "
                "claim.",
        "note": "Angle membership within 1e-9 of an arc end (other than the exact k=0 ends) is a don't-care; "
                "arithmetic images are compared with the same float operation applied to the ends.",
    },
    "C13": {
        "technique": "property-based testing: Hypothesis-generated ScenarioID field combinations and solutions against "
                     "an own reference printer/grammar regex and a print->parse->print round-trip",
        "text": "Tens of thousands of ids over the full product of the seven fields (all ISO alpha-3 codes, multi-digit "
                "numbers, prediction lists, defaults filled by the constructor) and thousands of single/cooperative "
                "solutions per run, a third of them edited (vehicle type, cost function) after the first print and "
                "checked again. Exploration only.",
        "note": "Reference printer and grammar regex are written from the documented format; one-element prediction "
                "lists are outside the domain.",
    },
    "C14": {
        "technique": "property-based testing: Hypothesis-generated solutions; round-trip oracle (float.hex), "
                     "independent lxml decoding against a documented element table, metamorphic state permutation, "
                     "XSD validation",
        "text": "Thousands of solutions per run over model x type x cost x trajectory kind with floats of any finite "
                "magnitude, ints and numpy scalars, optional metadata; every value compared bit-exactly with the recipe "
                "and located under its documented element name; benchmark id, vehicle and cost of every planning "
                "problem are compared too; a third of the solutions is edited after the first write and written "
                "again. Exploration only.",
        "note": "Trusts lxml's XSD validator and the own copy of the element table (written from the shipped XSD and "
                "the vehicle-model documentation).",
    },
    "C20": {
        "technique": "property-based testing: Hypothesis-generated lanelets / lanelet graphs; own arc-length "
                     "parametrisation as reference, validity predicate over enumerated routes, traced step budget for "
                     "termination",
        "text": "Thousands of lanelets (2-12 vertices, tiny and long segments, collinear runs) queried at 0, full "
                "length, exactly at and next to vertices; merge pairs with and without gap; thousands of digraphs with "
                "cycles/diamonds, bent lanelets (inner bound shorter than the centre line), networks built from a "
                "subset of the lanelet list and ranges hitting exact prefix sums; lanelets with 3-D polylines, lanelets "
                "that were used, moved or drawn before the queries. Exploration only; termination up to a step budget.",
        "note": "Tolerance 1e-9*(1+scale) on coordinates; route-length comparison is exact (axis-aligned lanelets).",
    },
    "C05": {
        "technique": "property-based testing: Hypothesis-generated objects of every kind x translations x angles (dense "
                     "near 0 and 0.05); oracle = independently computed rigid motion of every stored point/orientation, "
                     "invariants (dimensions, areas, lengths) and inverse-motion metamorphic check",
        "text": "17 facets (one per object kind, up to whole scenarios with any obstacle mix, obstacles with uncertain "
                "states), ~29k generated cases per quick run; every public coordinate/orientation, the derived "
                "vertices, exported geometries and occupancies compared with R(a)(p+t) within 1e-9; in half of the cases "
                "all lazily computed values exist before the motion. Exploration only.",
        "note": "Reference rotation uses math.cos/sin; tolerance 1e-9*(1+|p|+|t|); point-mass states at rest (no "
                "heading) are discarded; traffic-light shape, areas and histories are not claimed components.",
    },
    "C04": {
        "technique": "property-based testing: Hypothesis-generated obstacles of every role / shape / state class x time "
                     "steps around the horizon; reference occupancy computed from the recipe; sampled-enclosure oracle "
                     "for uncertain states; differential check of scenario-level queries against per-obstacle references",
        "text": "Thousands of obstacles per run (trajectories starting at t0+1 / t0 / t0+2, set-based with interval "
                "times, PM and custom (vx,vy) headings), t from 3 before to 3 after the horizon; uncertain states with "
                "rect/circle/polygon regions and angle intervals, sampled at ends/middle/critical angles; scenario "
                "queries with all filters; shape objects that were used before, update_initial_state, and a rigid "
                "motion after all caches are filled. Exploration only.",
        "note": "Shapes with an own centre offset are placed as rotate_translate_local documents (rotation about the "
                "shape's own centre); enclosure is checked on sampled admissible (p, psi) only; tolerance "
                "1e-9*(1+scale).",
    },
    "C06": {
        "technique": "property-based testing: Hypothesis-generated lanelet networks x construction routes x query "
                     "points/shapes; differential oracle = brute-force scan with own point-in-polygon / intersection "
                     "tests on raw vertices, with tolerance bands",
        "text": "Thousands of networks per run (chains, neighbours sharing a boundary, crossing, far apart) built by 12 "
                "routes incl. XML/protobuf round trips, deepcopy, pickle, list / mixed-list add_objects and batch "
                "removal with rtree=False, twin lanelets on one strip; lookups by position and by rectangle / "
                "circle / polygon; each shape's contains_point vs its exported geometry; obstacle mapping functions. "
                "One recorded finding (circle export at half radius) is attributed by signature and excluded so the "
                "search continues. Exploration only.",
        "note": "Band: boundary distance < 1e-9*scale (a query point that is bit-for-bit a polygon vertex is decided "
                "exactly); shape answers that flip under 1e-6 growth/shrink are don't-cares; "
                "circles additionally 0.2 % (64-gon export).",
    },
    "C01": {
        "technique": "property-based testing: Hypothesis-generated schema-expressible scenarios + planning problems x "
                     "decimal precisions; round-trip oracle against the generating recipe (structural snapshot, reals "
                     "within 10^-d, discrete values exact, two-directional diff)",
        "text": "Thousands of scenarios per run over every obstacle role, shape kind, expressible state class (incl. "
                "custom attribute subsets), exact / interval / region values, signs, lights, stop lines, intersections, "
                "goal shapes / goal lanelets, header and location, precision 1..12; compared element by element with "
                "the recipe; the writer is also used after a decoy writer was built, reused, reused after an edit of "
                "the scenario, on scenarios that were queried before, with re-assigned polygon rings, and the file is "
                "also read with lanelet assignment. One recorded finding (sign 'virtual' lost) has its own facet. "
                "Exploration only.",
        "note": "Enum domains are computed from the shipped XSD; initial time step 0 and the other schema limits "
                "narrow the domain; state class identity only for specific classes.",
    },
    "C08": {
        "technique": "property-based testing: goal regions and query states generated RELATIVE to the goal (inside / "
                     "outside / on the boundary / shifted by 2 pi) against an independent three-valued evaluation of "
                     "the specification (Fraction intervals, own containment, arc membership)",
        "text": "30k generated cases per quick run over kinematic, point-mass and custom (vx,vy) states, lanelet goals, "
                "long / wrapping / int-valued angle intervals and trajectories for goal_reached; regions also as "
                "deepcopy / pickle and after a rigid motion and its inverse. Exploration only.",
        "note": "Don't-care bands: 1e-9*scale at shape boundaries and arc ends, 1e-9*(1+v) for point-mass speed.",
    },
    "C19": {
        "technique": "property-based testing: Hypothesis-generated scenes x draw parameters rendered on the Agg "
                     "backend; totality, differential content oracle (patches collected by the renderer vs "
                     "occupancies recomputed from the recipe), introspective parameter-propagation check",
        "text": "Hundreds of full renders per quick run over all obstacle roles, uncertain states, signs, lights, "
                "intersections, 211 boolean flags, draw_ids filters and time windows before/inside/after horizons; "
                "thousands of propagation cases over every BaseParam subclass; one renderer reused for several "
                "frames; partial YAML style sheets. Exploration only.",
        "note": "Agg backend only; window end accepted inclusive or exclusive; content judged in the configuration "
                "the statement fixes.",
    },
    "C02": {
        "technique": "property-based testing: Hypothesis-generated scenarios restricted to *_pb2 enum members; "
                     "round-trip oracle against the recipe with bit-exact reals (float.hex)",
        "text": "Thousands of scenarios per run incl. what only protobuf carries (horn, sign virtual + first "
                "occurrences, static-obstacle signal states left at constructor defaults, PM / STD trajectory states), "
                "compared element by element, absent optional data must stay absent. Exploration only.",
        "note": "Enum domains computed from the generated descriptors by member NAME.",
    },
    "C03": {
        "technique": "property-based testing: Hypothesis-generated scenarios with extreme magnitudes injected; oracle = "
                     "lxml XMLSchema validation (incl. key/keyref) + independent lexical scan of numeric text nodes + "
                     "the library reader accepting the file",
        "text": "Thousands of written files per run with ~20 % of the numeric fields replaced by magnitudes from 1e-7 to "
                "1e5 at every precision 1..12, every optional element present/absent. Exploration only.",
        "note": "Trusts lxml's validator and the shipped XSD.",
    },
    "C10": {
        "technique": "property-based testing: generated well-formed networks + histories of removals / cut-outs "
                     "interpreted in lock-step with a relation-graph model; invariants after every step",
        "text": "2400 histories per quick run over scenario-level and network-level removals (single / list forms, "
                "with and without referenced elements), cut-outs by rectangle / circle / polygon and by lanelet types, "
                "create_from_lanelet_list; no-dangling, relations == original & remaining, content unchanged, original "
                "untouched (also later: a network a cut-out was taken from / produced earlier must not change when the "
                "other one is operated on), derived incoming maps. Circle cut-outs are attributed to the recorded "
                "half-radius finding. Exploration only.",
        "note": "first_occurrence and left_of are not among the listed reference kinds (lenient).",
    },
    "C15": {
        "technique": "property-based / model-based testing: generated histories of writer constructions and writes; "
                     "oracle = reference contents produced by fresh writers before the history starts (differential), "
                     "byte comparison modulo the date stamp, SKIP leaves bytes untouched",
        "text": "Hundreds of histories per quick run interleaving up to 5 XML / protobuf writers with 2-3 precisions "
                "over 1-3 scenarios, write_to_file / write_scenario_to_file / overwrite / SKIP (explicit and default "
                "file names) / edits of the scenario between writes; every reference file must read back to the "
                "scenario (C01/C02 comparator). Exploration only.",
        "note": "Scenario content restricted to what both formats carry; date stamp normalised.",
    },
    "C18": {
        "technique": "property-based testing: generated scenarios x sequences of read-only operations; invariant = deep "
                     "structural snapshot (incl. attribute-name sets and id-table types) identical before and after "
                     "every operation, exports before/after byte-identical modulo date",
        "text": "1350 sequences per quick run over 17 kinds of read-only operation (queries, lookups, merge queries, goal "
                "checks, ==, hash, copy, deepcopy, pickle, str, XML/protobuf writers, draw+render; the snapshot "
                "includes query answers of lights and of the spatial index) on scenarios enriched with the "
                "structures that make side effects visible. Exploration only.",
        "note": "Snapshot goes through public accessors; an exception of a read-only operation is not counted as a "
                "mutation.",
    },
    "C11": {
        "technique": "property-based / model-based testing: generated histories interleaving queries (cache fill) and "
                     "public mutators; differential oracle = the same queries on an object rebuilt through the public "
                     "constructors from the current primary data; list model for update_initial_state histories",
        "text": "Five machines (dynamic obstacle / prediction, static obstacle, lanelet, lanelet network / scenario incl. "
                "deepcopy, pickle and merged networks, traffic-light cycle incl. in-place edits), ~12k histories per "
                "quick run, every step followed by the full query "
                "comparison. Exploration only.",
        "note": "Lookups compared as sets with a boundary band, also against brute force; circle queries excluded "
                "(recorded C06 finding).",
    },
    "C12": {
        "technique": "property-based testing: per class a recipe strategy covering every constructor parameter "
                     "(self-checked against inspect.signature); oracle = equality / hash contract on independent "
                     "rebuilds, deepcopies, id-set permutations and single-parameter perturbations judged by a "
                     "public-attribute snapshot",
        "text": "52 facets (one per class), ~55k cases per quick run, one perturbation per constructor parameter per "
                "case; hash checked last so a raising __hash__ cannot hide comparison defects; after the comparisons the "
                "object is moved / gets an attribute re-assigned and is compared and hashed again; nearly equal "
                "objects (1e-13) must hash alike if they compare equal. Exploration only.",
        "note": "Real perturbations >= 1e-9 absolute (|v| <= 1e3) or >= 1e-6 relative; snapshot differences below "
                "5e-10 create no obligation.",
    },
    "C07": {
        "technique": "property-based / model-based testing: generated scenarios and add/assign/remove histories; oracle "
                     "= brute-force geometric truth per obstacle and time step, registries compared as the whole "
                     "inverse relation of the recorded assignment",
        "text": "Thousands of scenarios per quick run (static / dynamic with trajectory or none; rectangle, circle, "
                "polygon incl. polygons that do not contain their reference point; twin lanelets; centre-in / "
                "shape-touching-only / outside) through assign_obstacles_to_lanelets and through "
                "XML / protobuf open(lanelet_assignment=True), plus histories with removals and re-adds. Circular "
                "obstacles are attributed to the recorded half-radius finding. Exploration only.",
        "note": "Band as in C06; set-based predictions and use_center_only are outside the domain.",
    },
    "C09": {
        "technique": "property-based stateful / model-based testing: Hypothesis-generated operation histories "
                     "interpreted in lock-step with an id-pool model; deep-copy probes through the public API detect "
                     "leaked and double-freed reservations",
        "text": "~11000 histories of up to 40 operations per quick run over universes of up to 40 objects with ids from "
                "a 14-value pool (0..13); every add / remove (single and list forms) / replace / generate operation; "
                "exploration only.",
        "note": "Trusts the documented hanging-members rule; accepts either outcome where replace / add-network "
                "semantics are undocumented, as long as the pool stays exact.",
    },
}

NOT_APPLICABLE = [{"property_id": p, "reason": "check not built yet (work in progress; will be claimed once its "
                   "facets run clean and have been tested against mutants)"} for p in ALL if p not in CHECKS]
