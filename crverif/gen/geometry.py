"""Recipes (JSON-able) and builders for shapes, states, trajectories and lanelet geometry (DESIGN 3.1-3.3)."""
import math

import numpy as np
from hypothesis import strategies as st

from commonroad.common.util import AngleInterval, Interval
from commonroad.geometry.shape import Circle, Polygon, Rectangle, ShapeGroup
from commonroad.scenario import state as S
from commonroad.scenario.trajectory import Trajectory

from crverif.gen.values import TWO_PI, angle, coord, point
from crverif.oracle import geom

# ------------------------------------------------------------------------------------------------------- shapes


def dim(lo=0.2, hi=12.0):
    return st.one_of(st.floats(lo, hi, allow_nan=False), st.integers(1, 8).map(float).filter(lambda v: lo <= v <= hi),
                     st.integers(2, 100).map(lambda k: k / 10.0).filter(lambda v: lo <= v <= hi))


def star_polygon(center=None, rmin=0.3, rmax=6.0, nmin=3, nmax=7):
    """Simple by construction: strictly increasing angles around a centre; all turning the same way."""
    def build(t):
        c, n, offs, radii, phase = t
        verts = []
        for k in range(n):
            a = phase + TWO_PI * (k + 0.15 + 0.7 * offs[k]) / n
            verts.append([c[0] + radii[k] * math.cos(a), c[1] + radii[k] * math.sin(a)])
        return {"k": "poly", "v": verts, "c": list(c)}
    c = st.just(center) if center is not None else point(100)
    return st.integers(nmin, nmax).flatmap(lambda n: st.tuples(
        c, st.just(n), st.lists(st.floats(0, 1), min_size=n, max_size=n),
        st.lists(st.floats(rmin, rmax), min_size=n, max_size=n), st.floats(0, TWO_PI))).map(build)


def recentre(poly):
    """Move a polygon recipe so that its centroid is the origin (obstacle-shape convention)."""
    c = geom.polygon_centroid(poly["v"])
    v = [[p[0] - c[0], p[1] - c[1]] for p in poly["v"]]
    star = [poly["c"][0] - c[0], poly["c"][1] - c[1]]
    return {"k": "poly", "v": v, "c": star}


def rectangle(centered=False, free_orientation=True, lo=0.2):
    c = st.none() if centered else st.one_of(st.none(), point(100))
    o = st.one_of(st.none(), angle()) if free_orientation else st.none()
    return st.fixed_dictionaries({"k": st.just("rect"), "l": dim(lo, max(12.0, 4 * lo)), "w": dim(lo, max(12.0, 4 * lo)),
                                  "c": c, "o": o, "warm": st.booleans()})


def circle(centered=False, lo=0.1):
    c = st.none() if centered else st.one_of(st.none(), point(100))
    return st.fixed_dictionaries({"k": st.just("circle"), "r": dim(lo, max(8.0, 4 * lo)), "c": c, "warm": st.booleans()})


def polygon(centered=False, lo=0.3):
    if centered:
        return star_polygon(center=[0.0, 0.0], rmin=lo, rmax=max(6.0, 4 * lo)).map(recentre)
    return star_polygon(rmin=lo, rmax=max(6.0, 4 * lo))


def simple_shape(centered=False, lo=0.2, oriented=True):
    return st.one_of(rectangle(centered, oriented, lo=lo), circle(centered, lo=lo), polygon(centered, lo=max(lo, 0.3)))


def shape_group(centered=False, nmin=2, nmax=3, lo=0.2, oriented=True):
    return st.lists(simple_shape(centered, lo, oriented), min_size=nmin, max_size=nmax).map(
        lambda m: {"k": "group", "m": m})


def any_shape(centered=False, lo=0.2, oriented=True):
    return st.one_of(rectangle(centered, oriented, lo=lo), circle(centered, lo=lo), polygon(centered, lo=max(lo, 0.3)),
                     shape_group(centered, lo=lo, oriented=oriented))


def build_shape(r):
    """Library shape of a recipe. "warm": the object has been in ordinary use before it is handed on (its vertices,
    exported geometry and a containment answer have been asked for, so whatever it computes lazily exists)."""
    sh = _build_shape_via_setters(r) if r.get("setters") else _build_shape(r)
    if r.get("warm"):
        getattr(sh, "vertices", None)
        sh.shapely_object
        sh.contains_point(np.array([0.0, 0.0]))
    return sh


def vertices_agree(shape, tol):
    """None if the vertices a library rectangle exposes are those of its length / width / centre / orientation (for
    groups: of every member), else a description."""
    if isinstance(shape, Rectangle):
        ring = geom.rect_vertices(shape.length, shape.width, list(map(float, shape.center)), float(shape.orientation))
        if not same_ring(np.asarray(shape.vertices, dtype=float).tolist(), ring, tol):
            return "rectangle vertices %r do not belong to l=%r w=%r centre=%r orientation=%r" % (
                np.asarray(shape.vertices).tolist(), shape.length, shape.width, shape.center, shape.orientation)
    elif isinstance(shape, ShapeGroup):
        for m in shape.shapes:
            d = vertices_agree(m, tol)
            if d:
                return d
    return None


def recentre_to(r, d):
    """Shape recipe shifted by the vector d."""
    if r["k"] == "group":
        return {"k": "group", "m": [recentre_to(m, d) for m in r["m"]]}
    if r["k"] == "poly":
        out = dict(r, v=[[p[0] + d[0], p[1] + d[1]] for p in r["v"]])
        if r.get("c") is not None:
            out["c"] = [r["c"][0] + d[0], r["c"][1] + d[1]]
        return out
    c = r.get("c") or [0.0, 0.0]
    return dict(r, c=[c[0] + d[0], c[1] + d[1]])


def export_agrees(shape, tol):
    """None if the planar geometry a library rectangle / polygon exports (shapely_object) is the one its public
    attributes describe (groups: every member; circles: recorded finding, not compared), else a description."""
    if isinstance(shape, (Rectangle, Polygon)):
        ref = lib_shape_geo(shape)["v"]
        got = np.asarray(shape.shapely_object.exterior.coords, dtype=float).tolist()
        if not same_ring(got, ref, tol):
            return "%s exports %r, its attributes describe %r" % (type(shape).__name__, got, ref)
    elif isinstance(shape, ShapeGroup):
        for m in shape.shapes:
            d = export_agrees(m, tol)
            if d:
                return d
    return None


def _build_shape_via_setters(r):
    """The same shape, reached through the public setters: it is constructed with other values, used once (so that
    everything it derives lazily exists), and then receives the recipe's values attribute by attribute."""
    k = r["k"]
    probe = np.array([0.3, -0.2])
    if k == "rect":
        c = r.get("c") or [0.0, 0.0]
        sh = Rectangle(2.0 * r["l"] + 1.0, 0.5 * r["w"] + 0.1, np.array([c[0] + 3.0, c[1] - 2.0]), 0.3)
        sh.vertices, sh.shapely_object, sh.contains_point(probe)
        sh.length, sh.width = r["l"], r["w"]
        sh.center = np.array(c, dtype=float)
        sh.orientation = r.get("o") or 0.0
        return sh
    if k == "circle":
        c = r.get("c") or [0.0, 0.0]
        sh = Circle(0.5 * r["r"] + 0.1)
        sh.shapely_object, sh.contains_point(probe)
        sh.center = np.array(c, dtype=float)
        sh.radius = r["r"]
        return sh
    if k == "poly":
        target = Polygon(np.array(r["v"], dtype=float))
        sh = Polygon(np.array(r["v"], dtype=float) + np.array([3.0, -2.0]))
        sh.shapely_object, sh.contains_point(probe), sh.center
        sh.vertices = np.array(target.vertices)      # the closed, clockwise ring the constructor would store
        return sh
    if k == "group":
        return ShapeGroup([_build_shape_via_setters(m) for m in r["m"]])
    raise ValueError(k)


def _centre(r):
    """Centre array of a shape recipe; "int_c": an int-typed array (the values are whole numbers then)."""
    if r.get("int_c") and all(float(x) == int(x) for x in r["c"]):
        return np.array([int(r["c"][0]), int(r["c"][1])])
    return np.array(r["c"], dtype=float)


def _build_shape(r):
    k = r["k"]
    if k == "rect":
        kw = {}
        if r.get("c") is not None:
            kw["center"] = _centre(r)
        if r.get("o") is not None:
            kw["orientation"] = r["o"]
        return Rectangle(r["l"], r["w"], **kw)
    if k == "circle":
        if r.get("c") is not None:
            return Circle(r["r"], _centre(r))
        return Circle(r["r"])
    if k == "poly":
        return Polygon(np.array(r["v"], dtype=float))
    if k == "group":
        return ShapeGroup([build_shape(m) for m in r["m"]])
    raise ValueError(k)


def shape_geo(r):
    """The planar set a shape recipe denotes (independent of the library)."""
    k = r["k"]
    if k == "rect":
        c = r.get("c") or [0.0, 0.0]
        return {"k": "poly", "v": geom.rect_vertices(r["l"], r["w"], c, r.get("o") or 0.0), "c": list(c)}
    if k == "circle":
        return {"k": "circle", "c": list(r.get("c") or [0.0, 0.0]), "r": r["r"]}
    if k == "poly":
        return {"k": "poly", "v": [list(p) for p in r["v"]], "c": r.get("c")}
    return {"k": "group", "m": [shape_geo(m) for m in r["m"]]}


def shape_center(r):
    if r["k"] in ("rect", "circle"):
        return list(r.get("c") or [0.0, 0.0])
    if r["k"] == "poly":
        return geom.polygon_centroid(r["v"])
    raise ValueError("group has no centre")


def place(r, pos, theta):
    """Shape recipe rotated about its own centre by theta and moved by pos (documented rotate_translate_local);
    for obstacle-convention shapes (centre = origin) this is 'the shape rotated by theta and moved to pos'."""
    k = r["k"]
    if k == "rect":
        c = r.get("c") or [0.0, 0.0]
        nc = [c[0] + pos[0], c[1] + pos[1]]
        return {"k": "poly", "v": geom.rect_vertices(r["l"], r["w"], nc, (r.get("o") or 0.0) + theta), "c": nc}
    if k == "circle":
        c = r.get("c") or [0.0, 0.0]
        return {"k": "circle", "c": [c[0] + pos[0], c[1] + pos[1]], "r": r["r"]}
    if k == "poly":
        c = geom.polygon_centroid(r["v"])
        v = []
        for p in r["v"]:
            q = geom.rot([p[0] - c[0], p[1] - c[1]], theta)
            v.append([q[0] + c[0] + pos[0], q[1] + c[1] + pos[1]])
        sc = None
        if r.get("c") is not None:
            q = geom.rot([r["c"][0] - c[0], r["c"][1] - c[1]], theta)
            sc = [q[0] + c[0] + pos[0], q[1] + c[1] + pos[1]]
        return {"k": "poly", "v": v, "c": sc}
    return {"k": "group", "m": [place(m, pos, theta) for m in r["m"]]}


def lib_shape_geo(shape):
    """Geometry of a library shape object, read through its public attributes only."""
    if isinstance(shape, Rectangle):
        return {"k": "poly", "v": geom.rect_vertices(shape.length, shape.width, list(map(float, shape.center)),
                                                      float(shape.orientation)), "c": list(map(float, shape.center))}
    if isinstance(shape, Circle):
        return {"k": "circle", "c": list(map(float, shape.center)), "r": float(shape.radius)}
    if isinstance(shape, Polygon):
        return {"k": "poly", "v": geom.open_ring(np.asarray(shape.vertices).tolist())}
    if isinstance(shape, ShapeGroup):
        return {"k": "group", "m": [lib_shape_geo(m) for m in shape.shapes]}
    raise TypeError(type(shape))


def same_ring(a, b, tol):
    """Vertex rings equal up to cyclic shift and direction."""
    a, b = geom.open_ring(a), geom.open_ring(b)
    if len(a) != len(b):
        return False
    n = len(a)
    for seq in (b, b[::-1]):
        for s in range(n):
            if all(abs(a[i][0] - seq[(i + s) % n][0]) <= tol and abs(a[i][1] - seq[(i + s) % n][1]) <= tol
                   for i in range(n)):
                return True
    return False


def same_geo(a, b, tol):
    """None if equal as planar sets (same kind), else a description."""
    if a["k"] != b["k"]:
        return "kind %s vs %s" % (a["k"], b["k"])
    if a["k"] == "circle":
        if geom.dist(a["c"], b["c"]) > tol or abs(a["r"] - b["r"]) > tol:
            return "circle %r/%r vs %r/%r" % (a["c"], a["r"], b["c"], b["r"])
        return None
    if a["k"] == "poly":
        if not same_ring(a["v"], b["v"], tol):
            return "ring %r vs %r" % (a["v"], b["v"])
        return None
    if len(a["m"]) != len(b["m"]):
        return "group sizes %d vs %d" % (len(a["m"]), len(b["m"]))
    for i, (x, y) in enumerate(zip(a["m"], b["m"])):
        d = same_geo(x, y, tol)
        if d:
            return "member %d: %s" % (i, d)
    return None


def geo_scale_of(g):
    if g["k"] == "circle":
        return abs(g["c"][0]) + abs(g["c"][1]) + g["r"]
    if g["k"] == "poly":
        return max(abs(x) for p in g["v"] for x in p)
    return max(geo_scale_of(m) for m in g["m"])


# ------------------------------------------------------------------------------------------------------- values

def decode(v):
    """Recipe value -> library value."""
    if isinstance(v, dict):
        if "iv" in v:
            return Interval(v["iv"][0], v["iv"][1])
        if "ai" in v:
            return AngleInterval(v["ai"][0], v["ai"][1])
        if "shape" in v:
            return build_shape(v["shape"])
        raise ValueError(v)
    if isinstance(v, list):
        return np.array(v, dtype=float)
    return v


def interval_value(lo=-50.0, hi=50.0):
    return st.tuples(st.floats(lo, hi, allow_nan=False), st.floats(0.0, 10.0)).map(
        lambda t: {"iv": [t[0], t[0] + t[1]]})


def angle_interval_value(max_len=TWO_PI - 1e-3):
    def build(t):
        s, ln = t
        e = s + ln
        if e > TWO_PI:
            s, e = s - (e - TWO_PI), TWO_PI
        return {"ai": [max(s, -TWO_PI), e]}
    return st.tuples(st.floats(-TWO_PI, TWO_PI, allow_nan=False), st.floats(0.0, max_len)).map(build)


# ------------------------------------------------------------------------------------------------------- states

STATE_FIELDS = {
    "InitialState": ["position", "orientation", "velocity", "acceleration", "yaw_rate", "slip_angle"],
    "PMState": ["position", "velocity", "velocity_y"],
    "ExtendedPMState": ["position", "velocity", "orientation", "acceleration"],
    "KSState": ["position", "steering_angle", "velocity", "orientation"],
    "KSTState": ["position", "steering_angle", "velocity", "orientation", "hitch_angle"],
    "STState": ["position", "steering_angle", "velocity", "orientation", "slip_angle", "yaw_rate"],
    "STDState": ["position", "steering_angle", "velocity", "orientation", "slip_angle", "yaw_rate",
                 "front_wheel_angular_speed", "rear_wheel_angular_speed"],
    "MBState": ["position", "steering_angle", "velocity", "orientation", "yaw_rate", "roll_angle", "roll_rate",
                "pitch_angle", "pitch_rate", "velocity_y", "position_z", "velocity_z", "roll_angle_front",
                "roll_rate_front", "velocity_y_front", "position_z_front", "velocity_z_front", "roll_angle_rear",
                "roll_rate_rear", "velocity_y_rear", "position_z_rear", "velocity_z_rear",
                "left_front_wheel_angular_speed", "right_front_wheel_angular_speed", "left_rear_wheel_angular_speed",
                "right_rear_wheel_angular_speed", "delta_y_f", "delta_y_r"],
}
ANGLE_FIELDS = {"orientation", "hitch_angle"}


def build_state(r):
    """r = {"cls": name, "t": time step (int or {"iv"}), "a": {attr: value}}; CustomState takes any attrs."""
    kw = {k: decode(v) for k, v in r["a"].items()}
    t = decode(r["t"]) if isinstance(r["t"], dict) else r["t"]
    if r["cls"] == "CustomState":
        return S.CustomState(time_step=t, **kw)
    return getattr(S, r["cls"])(time_step=t, **kw)


def scalar_value():
    return st.one_of(st.floats(-30, 30, allow_nan=False), st.integers(-20, 20).map(float))


def exact_state(cls, t, pos=None, fields=None, lim=100):
    """Strategy for a fully (or partially: fields) populated exact state of class cls at time step t."""
    names = fields if fields is not None else STATE_FIELDS[cls]
    d = {}
    for f in names:
        if f == "position":
            d[f] = st.just(pos) if pos is not None else point(lim)
        elif f in ANGLE_FIELDS:
            d[f] = angle()
        else:
            d[f] = scalar_value()
    return st.fixed_dictionaries(d).map(lambda a: {"cls": cls, "t": t, "a": a})


def build_trajectory(r):
    return Trajectory(r["t0"], [build_state(s) for s in r["states"]])


def trajectory(cls, t0, n, fields=None, lim=100):
    return st.tuples(*[exact_state(cls, t0 + k, fields=fields, lim=lim) for k in range(n)]).map(
        lambda ss: {"t0": t0, "states": list(ss)})


# ------------------------------------------------------------------------------------------------------- lanelets

def offset_polyline(center, heads, d):
    """Mitred offset of a polyline (centre points + per-segment headings) by signed distance d (left positive)."""
    out = []
    for i, p in enumerate(center):
        if i == 0:
            a, m = heads[0], 1.0
        elif i == len(center) - 1:
            a, m = heads[-1], 1.0
        else:
            dd = heads[i] - heads[i - 1]
            a = heads[i - 1] + dd / 2
            m = 1.0 / math.cos(dd / 2)
        out.append([p[0] - d * m * math.sin(a), p[1] + d * m * math.cos(a)])
    return out


def lanelet_polylines(n_min=2, n_max=8, seg_min=1.0, seg_max=20.0, w_min=0.8, w_max=3.0, start=None, heading=None,
                      lim=200, wmul=1.0):
    """Centre polyline from a start pose, mitred left/right offsets; simple polygon by construction (DESIGN 3.3)."""
    def build(t):
        p0, h0, w, segs = t
        pts = [list(p0)]
        h = h0
        heads = []
        for i, (ln, turn) in enumerate(segs):
            if i > 0:
                lmin = min(ln, segs[i - 1][0])
                bound = 2 * math.atan(0.45 * min(lmin, 1.0) / (w * wmul))
                h = h + turn * bound
            heads.append(h)
            pts.append([pts[-1][0] + ln * math.cos(h), pts[-1][1] + ln * math.sin(h)])
        left, right = [], []
        for i, p in enumerate(pts):
            if i == 0:
                a, m = heads[0], 1.0
            elif i == len(pts) - 1:
                a, m = heads[-1], 1.0
            else:
                d = heads[i] - heads[i - 1]
                a = heads[i - 1] + d / 2
                m = 1.0 / math.cos(d / 2)
            nx, ny = -math.sin(a), math.cos(a)
            left.append([p[0] + w * m * nx, p[1] + w * m * ny])
            right.append([p[0] - w * m * nx, p[1] - w * m * ny])
        return {"left": left, "right": right, "center": pts, "w": w, "heads": heads}
    p0 = st.just(start) if start is not None else point(lim)
    h0 = st.just(heading) if heading is not None else angle()
    seg = st.tuples(st.one_of(st.floats(seg_min, seg_max), st.integers(1, 10).map(float)), st.floats(-1, 1))
    return st.tuples(p0, h0, st.floats(w_min, w_max), st.lists(seg, min_size=n_min - 1, max_size=n_max - 1)).map(build)


def lanelet_ring(ll):
    """right boundary followed by the reversed left boundary (the statement's lanelet polygon)."""
    return [list(p) for p in ll["right"]] + [list(p) for p in reversed(ll["left"])]
