"""Per-class constructor recipes for C12: value kinds (generate / perturb), class specs, builders, public snapshots.

A *value recipe* is self-describing JSON:
    scalars / None                      -> themselves
    {"$d": 1}                           -> "leave this constructor parameter at its default" (argument omitted)
    {"$arr": nested lists}              -> numpy float array
    {"$set": [e, ...]}                  -> set built by inserting the decoded elements in this order
    {"$list": [e, ...]}                 -> list
    {"$dict": [[k, v], ...]}            -> dict built in this order (keys: int / str)
    {"$enum": "EnumClass", "n": "NAME"} -> enum member
    {"$o": "Spec", "args": {p: value}}  -> object of a class spec, built through its public constructor

A *kind* knows how to generate such values for one constructor parameter and how to produce "another valid value"
(perturb). A *spec* lists one kind per constructor parameter (checked against inspect.signature) plus, for containers
that are filled through public add-methods (LaneletNetwork, Scenario), content parameters.
"""
import enum
import inspect
import math
import warnings

import numpy as np
from hypothesis import reject
from hypothesis import strategies as st

from commonroad.common import common_lanelet as CL
from commonroad.common.util import AngleInterval, Interval, Time
from commonroad.geometry.shape import Circle, Polygon, Rectangle, ShapeGroup
from commonroad.planning.goal import GoalRegion
from commonroad.planning.planning_problem import PlanningProblem, PlanningProblemSet
from commonroad.prediction.prediction import Occupancy, SetBasedPrediction, TrajectoryPrediction
from commonroad.scenario import area as AR
from commonroad.scenario import intersection as IS
from commonroad.scenario import lanelet as LL
from commonroad.scenario import obstacle as OB
from commonroad.scenario import scenario as SC
from commonroad.scenario import state as S
from commonroad.scenario import traffic_light as TL
from commonroad.scenario import traffic_sign as TS
from commonroad.scenario.trajectory import Trajectory

from crverif.core import HarnessError, canon
from crverif.gen import geometry as G
from crverif.gen.values import TWO_PI, angle, coord

# the text of a strategy is only used by Hypothesis for an internal event label; building it is a one-off cost
warnings.filterwarnings("ignore", message="Generating overly large repr")

D = {"$d": 1}
ID_POOL = [0, 8, 16, 32, 64, 1, 2, 3, 5, 24, 40, 128]      # 0/8/16/... collide in small hash tables
ABS_LIMIT = 1e3                                               # absolute 1e-9..1e-8 perturbations only for |v| <= 1e3


def is_default(v):
    return isinstance(v, dict) and "$d" in v


def is_empty(v):
    return isinstance(v, dict) and any(k in v and len(v[k]) == 0 for k in ("$set", "$list", "$dict"))


def is_number(v):
    return isinstance(v, (int, float)) and not isinstance(v, bool)


# ================================================================================================= kinds

class Kind:
    """gen(): Hypothesis strategy of values (built once per kind: strategy() caches it).
    perturb(draw, v): another valid value, drawn imperatively through the Hypothesis draw function (building a fresh
    strategy per value would dominate the run time)."""
    fixed = False
    _cached = None

    def gen(self):
        raise NotImplementedError

    def strategy(self):
        if self._cached is None:
            self._cached = self.gen()
        return self._cached

    def perturb(self, draw, v):
        raise NotImplementedError

    def accepts(self, v):
        return True


TRIES = 25
_INDEX = {}


def index(draw, n):
    """Uniform index below n (strategies cached per n)."""
    s = _INDEX.get(n)
    if s is None:
        s = _INDEX[n] = st.integers(0, n - 1)
    return draw(s)


def pick(draw, seq):
    return seq[index(draw, len(seq))]


def retry(draw, make, ok):
    """Own bounded rejection loop; gives the case up (hypothesis.reject) when no candidate is admissible."""
    for _ in range(TRIES):
        w = make()
        if ok(w):
            return w
    reject()


F_ABS = st.floats(1e-9, 1e-8)
F_MANT = st.floats(1.0, 9.5)
_FRESH = {}


def real_perturbation(draw, v, lo, hi):
    """A real w with |w - v| >= 1e-6*(1+|v|), or an absolute 1e-9..1e-8 when |v| <= 1e3; inside [lo, hi]."""
    v = float(v)

    def ok(w):
        if not lo <= w <= hi:
            return False
        d = abs(w - v)
        return d >= 1e-6 * (1.0 + abs(v)) or (abs(v) <= ABS_LIMIT and 0.99e-9 <= d <= 1.01e-8)

    def make():
        mode = pick(draw, ["abs", "abs", "abs", "rel", "rel", "rel", "rel", "fresh"])
        if mode == "fresh":
            s = _FRESH.get((lo, hi))
            if s is None:
                s = _FRESH[(lo, hi)] = st.floats(lo, hi, allow_nan=False)
            return draw(s)
        sign = pick(draw, [-1.0, 1.0])
        if mode == "abs" and abs(v) <= ABS_LIMIT:
            d = draw(F_ABS)
        else:
            d = pick(draw, [1e-6, 1e-6, 1e-5, 1e-4, 1e-3]) * draw(F_MANT) * (1.0 + abs(v))
        w = v + sign * d
        if not lo <= w <= hi:
            w = v - sign * d
        return w
    return retry(draw, make, ok)


class Real(Kind):
    def __init__(self, lo=-1e3, hi=1e3, strat=None):
        self.lo, self.hi, self.strat = lo, hi, strat

    def gen(self):
        if self.strat is not None:
            return self.strat
        return st.one_of(st.floats(self.lo, self.hi, allow_nan=False),
                         st.integers(math.ceil(self.lo), math.floor(self.hi)).map(float))

    def perturb(self, draw, v):
        return real_perturbation(draw, v, self.lo, self.hi)

    def accepts(self, v):
        return is_number(v)


def coordinate():
    """Coordinates: mostly |v| <= 1e3 (DESIGN 3.2), sometimes 1e4..1e5."""
    return st.one_of(coord(1e3), coord(1e3), coord(1e3), st.floats(-1e5, 1e5, allow_nan=False),
                     st.integers(-500, 500).map(lambda k: 200.0 * k))


COORD = Real(-2e5, 2e5, strat=coordinate())
ANGLE = Real(-TWO_PI, TWO_PI, strat=angle())
SCALAR = Real(-1e3, 1e3, strat=st.one_of(st.floats(-30, 30, allow_nan=False), st.integers(-20, 20).map(float),
                                          st.floats(-1e3, 1e3, allow_nan=False)))


class Int(Kind):
    def __init__(self, lo, hi):
        self.lo, self.hi = lo, hi

    def gen(self):
        return st.integers(self.lo, self.hi)

    def perturb(self, draw, v):
        return retry(draw, lambda: draw(self.strategy()), lambda w: w != v)

    def accepts(self, v):
        return isinstance(v, int) and not isinstance(v, bool)


class Choice(Kind):
    """One of a finite pool of JSON scalars (ids, strings)."""

    def __init__(self, pool):
        self.pool = list(pool)

    def gen(self):
        return st.sampled_from(self.pool)

    def perturb(self, draw, v):
        return pick(draw, [p for p in self.pool if p != v])

    def accepts(self, v):
        return v in self.pool


ID = Choice(ID_POOL)


class Bool(Kind):
    def gen(self):
        return st.booleans()

    def perturb(self, draw, v):
        return not v

    def accepts(self, v):
        return isinstance(v, bool)


BOOL = Bool()
ENUMS = {}


class EnumK(Kind):
    def __init__(self, *classes, members=None):
        self.values = []
        for c in classes:
            ENUMS[c.__name__] = c
            for m in c:
                if members is None or m.name in members:
                    self.values.append({"$enum": c.__name__, "n": m.name})

    def gen(self):
        return st.sampled_from(self.values)

    def perturb(self, draw, v):
        return pick(draw, [w for w in self.values if w != v])

    def accepts(self, v):
        return isinstance(v, dict) and "$enum" in v


def fresh(draw, kind, ok=lambda w: True):
    return retry(draw, lambda: draw(kind.strategy()), ok)


class Opt(Kind):
    """None or a value. None <-> empty collection is never produced as a perturbation (libraries often treat both as
    'nothing'; the statement says nothing about that pair)."""

    def __init__(self, inner):
        self.inner = inner

    def gen(self):
        return st.one_of(st.none(), self.inner.strategy(), self.inner.strategy())

    def perturb(self, draw, v):
        if v is None:
            return fresh(draw, self.inner, lambda w: not is_empty(w))
        if is_empty(v) or index(draw, 3) < 2:
            return self.inner.perturb(draw, v)
        return None


class Dflt(Kind):
    """Parameter with a default: may be left out of the call. none=True: the default is None (so leaving it out is the
    same as passing None and the perturbation from the default goes to a real value)."""

    def __init__(self, inner, none=False):
        self.inner, self.none = inner, none

    def gen(self):
        return st.one_of(st.just(D), self.inner.strategy(), self.inner.strategy())

    def perturb(self, draw, v):
        if is_default(v):
            if self.none:
                return self.inner.perturb(draw, None)
            return fresh(draw, self.inner, lambda w: not is_empty(w))
        if self.none and (v is None or is_empty(v)):
            return self.inner.perturb(draw, v)
        if index(draw, 3) < 2:
            return self.inner.perturb(draw, v)
        return D


def OD(inner):
    """Optional parameter whose default is None."""
    return Dflt(Opt(inner), none=True)


class SetOf(Kind):
    def __init__(self, elem, lo=0, hi=4):
        self.elem, self.lo, self.hi = elem, lo, hi

    def gen(self):
        return st.lists(self.elem.strategy(), min_size=self.lo, max_size=self.hi, unique_by=canon).map(
            lambda xs: {"$set": xs})

    def perturb(self, draw, v):
        xs = v["$set"]
        keys = {canon(x) for x in xs}
        ops = ["add"]
        if len(xs) > self.lo:
            ops.append("remove")
        if xs:
            ops.append("replace")
        op = pick(draw, ops)
        if op == "remove":
            i = index(draw, len(xs))
            return {"$set": xs[:i] + xs[i + 1:]}
        e = fresh(draw, self.elem, lambda w: canon(w) not in keys)
        if op == "add":
            return {"$set": xs + [e]}
        i = index(draw, len(xs))
        return {"$set": xs[:i] + [e] + xs[i + 1:]}

    def accepts(self, v):
        return isinstance(v, dict) and "$set" in v


class ListOf(Kind):
    """key: elements must stay distinct under this key (ids unique inside a container / membership-only lists)."""

    def __init__(self, elem, lo=0, hi=3, key=None):
        self.elem, self.lo, self.hi, self.key = elem, lo, hi, key

    def _ok(self, xs):
        if self.key is None:
            return True
        ks = [canon(self.key(x)) for x in xs]
        return len(set(ks)) == len(ks)

    def gen(self):
        kw = {}
        if self.key is not None:
            kw["unique_by"] = lambda x: canon(self.key(x))
        return st.lists(self.elem.strategy(), min_size=self.lo, max_size=self.hi, **kw).map(
            lambda xs: {"$list": xs})

    def perturb(self, draw, v):
        xs = v["$list"]
        ops = ["append"]
        if len(xs) > self.lo:
            ops.append("remove")
        if xs:
            ops += ["change", "change"]

        def make():
            op = pick(draw, ops)
            if op == "append":
                return xs + [draw(self.elem.strategy())]
            i = index(draw, len(xs))
            if op == "remove":
                return xs[:i] + xs[i + 1:]
            return xs[:i] + [self.elem.perturb(draw, xs[i])] + xs[i + 1:]
        return {"$list": retry(draw, make, self._ok)}

    def accepts(self, v):
        return isinstance(v, dict) and "$list" in v


class DictOf(Kind):
    def __init__(self, key, val, lo=0, hi=3):
        self.key, self.val, self.lo, self.hi = key, val, lo, hi

    def gen(self):
        return st.lists(st.tuples(self.key.strategy(), self.val.strategy()).map(list), min_size=self.lo,
                        max_size=self.hi, unique_by=lambda kv: canon(kv[0])).map(lambda kvs: {"$dict": kvs})

    def perturb(self, draw, v):
        kvs = v["$dict"]
        keys = {canon(k) for k, _ in kvs}
        ops = ["add"]
        if len(kvs) > self.lo:
            ops.append("remove")
        if kvs:
            ops += ["change", "change"]
        op = pick(draw, ops)
        if op == "add":
            k = fresh(draw, self.key, lambda w: canon(w) not in keys)
            return {"$dict": kvs + [[k, draw(self.val.strategy())]]}
        i = index(draw, len(kvs))
        if op == "remove":
            return {"$dict": kvs[:i] + kvs[i + 1:]}
        return {"$dict": kvs[:i] + [[kvs[i][0], self.val.perturb(draw, kvs[i][1])]] + kvs[i + 1:]}

    def accepts(self, v):
        return isinstance(v, dict) and "$dict" in v


class KwArgs(Kind):
    """**kwargs-style constructors (CustomState, SignalState): a dict name -> value with one kind per name."""

    def __init__(self, fields, required=(), allow_empty=False):
        self.fields, self.required, self.allow_empty = fields, list(required), allow_empty

    def gen(self):
        names = list(self.fields)

        def chosen(t):
            mask, vals = t
            return {"$dict": [[n, w] for n, m, w in zip(names, mask, vals) if m or n in self.required]}
        full = st.tuples(st.lists(st.booleans(), min_size=len(names), max_size=len(names)),
                         st.tuples(*[self.fields[n].strategy() for n in names])).map(chosen)
        if self.allow_empty:
            return st.one_of(full, full, full, full, st.just({"$dict": []}))
        return full

    def perturb(self, draw, v):
        kvs = v["$dict"]
        present = [k for k, _ in kvs]
        absent = [n for n in self.fields if n not in present]
        removable = [i for i, (k, _) in enumerate(kvs) if k not in self.required]
        ops = []
        if kvs:
            ops += ["change", "change"]
        if removable:
            ops.append("remove")
        if absent and (kvs or not self.required):
            ops.append("add")
        if not kvs and self.required:
            ops.append("start")
        op = pick(draw, ops)
        if op == "change":
            i = index(draw, len(kvs))
            return {"$dict": kvs[:i] + [[kvs[i][0], self.fields[kvs[i][0]].perturb(draw, kvs[i][1])]] + kvs[i + 1:]}
        if op == "remove":
            i = pick(draw, removable)
            return {"$dict": kvs[:i] + kvs[i + 1:]}
        if op == "add":
            n = pick(draw, absent)
            return {"$dict": kvs + [[n, draw(self.fields[n].strategy())]]}
        return {"$dict": [[n, draw(self.fields[n].strategy())] for n in self.required]}


class Const(Kind):
    fixed = True

    def __init__(self, v):
        self.v = v

    def gen(self):
        return st.just(self.v)


def mixed_point():
    """One coordinate in the hundreds, the other tiny: arrays of mixed magnitude."""
    return st.tuples(st.floats(100.0, 1000.0), st.floats(-0.1, 0.1), st.booleans(), st.sampled_from([-1.0, 1.0])).map(
        lambda t: [t[3] * t[0], t[1]] if t[2] else [t[1], t[3] * t[0]])


class Point(Kind):
    def gen(self):
        plain = st.tuples(coordinate(), coordinate()).map(list)
        return st.one_of(plain, plain, plain, plain, mixed_point()).map(lambda p: {"$arr": p})

    def perturb(self, draw, v):
        p = v["$arr"]
        i = index(draw, 2)
        w = COORD.perturb(draw, p[i])
        return {"$arr": [w if j == i else p[j] for j in range(2)]}

    def accepts(self, v):
        return isinstance(v, dict) and "$arr" in v


POINT = Point()


def small_move(draw, v):
    """Moves that keep generated geometry valid: absolute 1e-9..1e-8 (|v| <= 1e3) or relative 1e-6..1e-5."""
    v = float(v)
    sign = pick(draw, [-1.0, 1.0])
    if index(draw, 2) == 0 and abs(v) <= ABS_LIMIT:
        return v + sign * draw(F_ABS)
    return v + sign * 1e-6 * draw(F_MANT) * (1.0 + abs(v))


def move_vertex(draw, pts):
    n = len(pts)
    i = n // 2 if index(draw, 3) == 0 else index(draw, n)
    j = index(draw, 2)
    w = small_move(draw, pts[i][j])
    out = [list(q) for q in pts]
    out[i][j] = w
    return out


LONG_ONE_IN = 40      # how often a long (> 500 vertices) polyline / polygon is generated


class Polyline(Kind):
    """(n,2) vertex arrays; perturbation = one coordinate of one vertex."""

    def __init__(self, nmin=2, nmax=6, long=True):
        self.nmin, self.nmax, self.long = nmin, nmax, long

    def gen(self):
        def walk(t):
            p0, h, steps = t
            pts = [list(p0)]
            for ln, turn in steps:
                h += turn
                pts.append([pts[-1][0] + ln * math.cos(h), pts[-1][1] + ln * math.sin(h)])
            return {"$arr": pts}
        step = st.tuples(st.floats(0.5, 20.0), st.floats(-0.4, 0.4))
        p0 = st.tuples(coordinate(), coordinate())
        normal = st.tuples(p0, angle(), st.lists(step, min_size=self.nmin - 1, max_size=self.nmax - 1)).map(walk)
        if not self.long:
            return normal
        long = st.tuples(p0, angle(), st.integers(500, 510).map(lambda n: [(1.0, 0.001)] * n)).map(walk)
        return st.one_of(*([normal] * (LONG_ONE_IN - 1) + [long]))

    def perturb(self, draw, v):
        return {"$arr": move_vertex(draw, v["$arr"])}

    def accepts(self, v):
        return isinstance(v, dict) and "$arr" in v


class PolyVerts(Kind):
    """Vertices of a simple (star-shaped) polygon. Variants that the constructor may normalise away (ring given
    closed, opposite direction) are offered as perturbations too; the snapshot decides whether they oblige."""

    def __init__(self, centered=False, long=True):
        self.centered, self.long = centered, long

    def gen(self):
        base = G.polygon(self.centered).map(lambda r: {"$arr": [list(map(float, p)) for p in r["v"]]})
        if not self.long or self.centered:
            return base

        def big(t):
            c, r, n = t
            return {"$arr": [[c[0] + r * math.cos(TWO_PI * k / n), c[1] + r * math.sin(TWO_PI * k / n)]
                             for k in range(n)]}
        long = st.tuples(st.tuples(coordinate(), coordinate()), st.floats(50.0, 200.0), st.integers(501, 510)).map(big)
        return st.one_of(*([base] * (LONG_ONE_IN - 1) + [long]))

    def perturb(self, draw, v):
        pts = v["$arr"]
        ops = ["move"] * 5 + ["reverse", "rotate"]
        if pts[0] != pts[-1]:
            ops.append("close")
        op = pick(draw, ops)
        if op == "move":
            return {"$arr": move_vertex(draw, pts)}
        if op == "close":
            return {"$arr": pts + [pts[0]]}
        if op == "reverse":
            return {"$arr": pts[::-1]}
        return {"$arr": pts[1:] + pts[:1]}

    def accepts(self, v):
        return isinstance(v, dict) and "$arr" in v


class Obj(Kind):
    """An object of another spec; perturbation = one parameter of that object perturbed, or a fresh object."""

    def __init__(self, name, fixed=None):
        self.name, self.over, self._spec = name, dict(fixed or {}), None

    @property
    def spec(self):
        if self._spec is None:
            s = SPECS[self.name]
            self._spec = s.with_kinds(self.over) if self.over else s
        return self._spec

    def gen(self):
        return st.deferred(lambda: self.spec.args_strategy()).map(lambda a: {"$o": self.name, "args": a})

    def perturb(self, draw, v):
        spec = self.spec
        args = v["args"]
        if index(draw, 5) == 0:
            return fresh(draw, self, lambda w: canon(w) != canon(v))
        names = [p for p in spec.all_params() if not spec.kind(p).fixed]
        return {"$o": self.name, "args": dict(args, **spec.perturb_param(draw, args, pick(draw, names)))}

    def accepts(self, v):
        return isinstance(v, dict) and v.get("$o") == self.name


class OneOf(Kind):
    def __init__(self, *kinds):
        self.kinds = kinds

    def gen(self):
        return st.one_of(*[k.strategy() for k in self.kinds])

    def perturb(self, draw, v):
        for i, k in enumerate(self.kinds):
            if k.accepts(v):
                others = [o for j, o in enumerate(self.kinds) if j != i]
                c = index(draw, 2 + len(others))
                if c < 2:
                    return k.perturb(draw, v)
                return draw(others[c - 2].strategy())
        raise HarnessError("OneOf: no alternative accepts %r" % (v,))

    def accepts(self, v):
        return any(k.accepts(v) for k in self.kinds)


# ================================================================================================= specs

SPECS = {}
SPEC_BY_TYPE = {}


class Spec:
    """params: constructor parameters (must equal the signature); content: things added through public add-methods.
    attrs: parameter -> public attribute name or getter (defaults to the parameter name)."""

    def __init__(self, name, cls, params, attrs=None, content=None, add=None, gen_args=None, perturbers=None,
                 valid=None, register=True, varkw=None):
        self.name, self.cls = name, cls
        self.params = dict(params)
        self.content = dict(content or {})
        self.attrs = dict(attrs or {})
        self.add = add
        self._gen_args = gen_args
        self.perturbers = dict(perturbers or {})
        self.valid = valid
        self.varkw = varkw
        self._args_strategy = None
        if register:
            SPECS[name] = self
            SPEC_BY_TYPE[cls] = self
            self.self_check()

    def self_check(self):
        sig = inspect.signature(self.cls.__init__)
        names = [n for n in sig.parameters if n != "self"]
        if set(names) != set(self.params):
            raise HarnessError("recipe of %s covers %s but the constructor takes %s" % (
                self.name, sorted(self.params), sorted(names)))
        var = [n for n, p in sig.parameters.items() if p.kind is inspect.Parameter.VAR_KEYWORD]
        if var != ([self.varkw] if self.varkw else []):
            raise HarnessError("%s: **kwargs parameter mismatch %s vs %s" % (self.name, var, self.varkw))
        for n, p in sig.parameters.items():
            if n == "self" or n == self.varkw:
                continue
            k = self.params[n]
            has_default = p.default is not inspect.Parameter.empty
            if has_default != isinstance(k, (Dflt, Const)):
                raise HarnessError("%s.%s: default in signature = %s but kind is %s" % (
                    self.name, n, has_default, type(k).__name__))

    def with_kinds(self, over):
        s = Spec(self.name, self.cls, dict(self.params, **{k: v for k, v in over.items() if k in self.params}),
                 self.attrs, dict(self.content, **{k: v for k, v in over.items() if k in self.content}), self.add,
                 self._gen_args, self.perturbers, self.valid, register=False, varkw=self.varkw)
        return s

    def all_params(self):
        return list(self.params) + list(self.content)

    def kind(self, p):
        return self.params[p] if p in self.params else self.content[p]

    def args_strategy(self):
        if self._args_strategy is None:
            if self._gen_args is not None:
                self._args_strategy = self._gen_args(self)
            else:
                names = self.all_params()
                s = st.tuples(*[self.kind(p).strategy() for p in names]).map(lambda vals: dict(zip(names, vals)))
                if self.valid is not None:
                    s = s.filter(self.valid)
                self._args_strategy = s
        return self._args_strategy

    def perturb_param(self, draw, args, p):
        """{param: new value, ...}: normally only p; coupled parameters may bring companions along."""
        def make():
            if p in self.perturbers:
                return self.perturbers[p](self, draw, args)
            return {p: self.kind(p).perturb(draw, args[p])}
        if self.valid is None:
            return make()
        return retry(draw, make, lambda ch: self.valid(dict(args, **ch)))

    def getter(self, p):
        a = self.attrs.get(p, p)
        if callable(a):
            return a
        return lambda o: getattr(o, a)


def decode(v):
    if isinstance(v, dict):
        if "$arr" in v:
            return np.array(v["$arr"], dtype=float)
        if "$set" in v:
            s = set()
            for e in v["$set"]:
                s.add(decode(e))
            return s
        if "$list" in v:
            return [decode(e) for e in v["$list"]]
        if "$dict" in v:
            return {decode(k): decode(w) for k, w in v["$dict"]}
        if "$enum" in v:
            return ENUMS[v["$enum"]][v["n"]]
        if "$o" in v:
            return construct(SPECS[v["$o"]], v["args"])
        raise HarnessError("cannot decode %r" % (v,))
    if isinstance(v, list):
        raise HarnessError("bare list in recipe: %r" % (v,))
    return v


def construct(spec, args, reverse_kw=False):
    """reverse_kw: the keyword arguments are passed in the opposite order (the same call as far as Python goes)."""
    kw = {}
    for p in spec.params:
        v = args[p]
        if is_default(v):
            continue
        if p == spec.varkw:
            kw.update(decode(v))
        else:
            kw[p] = decode(v)
    if reverse_kw:
        kw = dict(reversed(list(kw.items())))
    obj = spec.cls(**kw)
    if spec.add is not None:
        spec.add(obj, {p: decode(args[p]) for p in spec.content if not is_default(args[p])})
    return obj


def permute_sets(v):
    """The same value with every set inserted in the opposite order. Returns (value, number of sets reordered)."""
    if isinstance(v, dict):
        if "$set" in v:
            inner = [permute_sets(e) for e in v["$set"]]
            xs = [e for e, _ in inner]
            n = sum(c for _, c in inner)
            if len(xs) >= 2:
                return {"$set": xs[::-1]}, n + 1
            return {"$set": xs}, n
        if "$list" in v:
            inner = [permute_sets(e) for e in v["$list"]]
            return {"$list": [e for e, _ in inner]}, sum(c for _, c in inner)
        if "$dict" in v:
            inner = [(k, permute_sets(w)) for k, w in v["$dict"]]
            return {"$dict": [[k, w] for k, (w, _) in inner]}, sum(c for _, (_, c) in inner)
        if "$o" in v:
            out, n = {}, 0
            for p, w in v["args"].items():
                out[p], c = permute_sets(w)
                n += c
            return {"$o": v["$o"], "args": out}, n
    return v, 0


def iteration_order_differs(v):
    """Does some id set of the recipe iterate in a different order when inserted in the opposite order?"""
    if isinstance(v, dict):
        if "$set" in v:
            xs = v["$set"]
            if len(xs) >= 2 and all(isinstance(e, int) for e in xs):
                a, b = set(), set()
                for e in xs:
                    a.add(e)
                for e in xs[::-1]:
                    b.add(e)
                if list(a) != list(b):
                    return True
            return any(iteration_order_differs(e) for e in xs)
        if "$list" in v:
            return any(iteration_order_differs(e) for e in v["$list"])
        if "$dict" in v:
            return any(iteration_order_differs(w) for _, w in v["$dict"])
        if "$o" in v:
            return any(iteration_order_differs(w) for w in v["args"].values())
    return False


# ================================================================================================= snapshot

def snap(o):
    """Canonical structure of what is visible through public attributes (never calls __eq__/__hash__ of the library:
    sets are ordered by the canonical text of their members' snapshots)."""
    if o is None or isinstance(o, (bool, str)):
        return o
    if isinstance(o, (int, np.integer)):
        return int(o)
    if isinstance(o, (float, np.floating)):
        return float(o)
    if isinstance(o, np.ndarray):
        return {"arr": o.astype(float).tolist()}
    if isinstance(o, enum.Enum):
        return {"enum": "%s.%s" % (type(o).__name__, o.name)}
    if isinstance(o, (set, frozenset)):
        return {"set": sorted((snap(e) for e in o), key=canon)}
    if isinstance(o, (list, tuple)):
        return [snap(e) for e in o]
    if isinstance(o, dict):
        return {"dict": sorted(([snap(k), snap(w)] for k, w in o.items()), key=lambda kv: canon(kv[0]))}
    if isinstance(o, S.State):
        return {"cls": type(o).__name__, "attrs": {a: snap(getattr(o, a)) for a in o.attributes}}
    if isinstance(o, S.SignalState):
        return {"cls": "SignalState", "attrs": {a: snap(getattr(o, a)) for a in S.SignalState.__slots__
                                                  if hasattr(o, a)}}
    spec = SPEC_BY_TYPE.get(type(o))
    if spec is None:
        raise HarnessError("snapshot: unknown type %s" % type(o))
    return {"cls": spec.name, "attrs": {p: snap(spec.getter(p)(o)) for p in spec.all_params()}}


SAME, DIFFERENT, UNSPECIFIED = 0, 1, 2
REAL_DIFF = 5e-10   # perturbations are >= 1e-9; anything below 1e-10 is 'the same'; in between: no obligation


def snap_cmp(a, b, path=""):
    """(verdict, where): SAME = identical; DIFFERENT = some leaf differs (reals: by more than 5e-10); UNSPECIFIED =
    only real differences inside the zone the statement does not decide."""
    if a == b:                      # plain data: structural equality decides the common case quickly
        return SAME, ""
    if is_number(a) and is_number(b):
        return (DIFFERENT if abs(a - b) > REAL_DIFF else UNSPECIFIED), path
    if type(a) is not type(b):
        return DIFFERENT, path
    if isinstance(a, dict):
        if set(a) != set(b):
            return DIFFERENT, path
        pairs = [(k, a[k], b[k]) for k in sorted(a)]
    elif isinstance(a, list):
        if len(a) != len(b):
            return DIFFERENT, path
        pairs = [(i, x, y) for i, (x, y) in enumerate(zip(a, b))]
    else:
        return DIFFERENT, path
    worst, where = SAME, ""
    for k, x, y in pairs:
        if x == y:
            continue
        v, w = snap_cmp(x, y, "%s/%s" % (path, k))
        if v == DIFFERENT:
            return v, w
        if v == UNSPECIFIED:
            worst, where = v, w
    return worst, where


# ================================================================================================= the classes

def obj(name, **fixed):
    return Obj(name, fixed or None)


# ---- intervals -----------------------------------------------------------------------------------------------

def _interval_gen(lo, hi, ints=False):
    def g(spec):
        if ints:
            return st.tuples(st.integers(lo, hi), st.integers(0, 20)).map(
                lambda t: {"start": t[0], "end": min(hi + 20, t[0] + t[1])})
        return st.tuples(st.floats(lo, hi, allow_nan=False), st.one_of(st.floats(0.0, 10.0), st.just(0.0))).map(
            lambda t: {"start": t[0], "end": t[0] + t[1]})
    return g


def _interval_perturb(which, ints=False, lo=-1e6, hi=1e6):
    def p(spec, draw, args):
        a, b = args["start"], args["end"]

        def make():
            if ints:
                d = (1 + index(draw, 5)) * pick(draw, [-1, 1])
                return (a if which == "start" else b) + d
            return real_perturbation(draw, a if which == "start" else b, lo, hi)
        if which == "start":
            return {"start": retry(draw, make, lambda w: lo <= w <= b)}
        return {"end": retry(draw, make, lambda w: a <= w <= hi)}
    return p


Spec("Interval", Interval, {"start": SCALAR, "end": SCALAR}, gen_args=_interval_gen(-100.0, 100.0),
     perturbers={"start": _interval_perturb("start"), "end": _interval_perturb("end")})


def _angle_interval_gen(spec):
    return G.angle_interval_value().map(lambda v: {"start": v["ai"][0], "end": v["ai"][1]})


def _ai_valid(a):
    return -TWO_PI <= a["start"] <= a["end"] <= TWO_PI and a["end"] - a["start"] < TWO_PI - 1e-6


Spec("AngleInterval", AngleInterval, {"start": ANGLE, "end": ANGLE}, gen_args=_angle_interval_gen, valid=_ai_valid,
     perturbers={"start": _interval_perturb("start", lo=-TWO_PI, hi=TWO_PI),
                 "end": _interval_perturb("end", lo=-TWO_PI, hi=TWO_PI)})

# integer time intervals are plain Interval objects with int ends; they get their own spec name so that perturbations
# stay integral
SPECS["TimeInterval"] = Spec("Interval", Interval, {"start": Int(0, 60), "end": Int(0, 80)},
                             gen_args=_interval_gen(0, 50, ints=True), register=False,
                             perturbers={"start": _interval_perturb("start", ints=True, lo=0, hi=200),
                                         "end": _interval_perturb("end", ints=True, lo=0, hi=200)})
SPECS["TimeInterval"].name = "TimeInterval"
TIME_STEP = Int(0, 60)
TIME = OneOf(TIME_STEP, obj("TimeInterval"))

# ---- shapes --------------------------------------------------------------------------------------------------

DIM = Real(0.1, 15.0, strat=G.dim())
Spec("Rectangle", Rectangle, {"length": DIM, "width": DIM, "center": OD(POINT), "orientation": Dflt(ANGLE)})
Spec("Circle", Circle, {"radius": Real(0.1, 10.0, strat=G.dim(0.1, 8.0)), "center": OD(POINT)})
Spec("Polygon", Polygon, {"vertices": PolyVerts()})
CENTRED = {"Rectangle": {"center": Const(D)}, "Circle": {"center": Const(D)},
           "Polygon": {"vertices": PolyVerts(centered=True)}}


def simple_shape(centered=False):
    if centered:
        return OneOf(*[Obj(n, CENTRED[n]) for n in ("Rectangle", "Circle", "Polygon")])
    return OneOf(obj("Rectangle"), obj("Circle"), obj("Polygon"))


Spec("ShapeGroup", ShapeGroup, {"shapes": ListOf(simple_shape(), 1, 3)})


def any_shape(centered=False):
    if centered:
        grp = Obj("ShapeGroup", {"shapes": ListOf(simple_shape(True), 1, 3)})
        return OneOf(*(list(simple_shape(True).kinds) + [grp]))
    return OneOf(obj("Rectangle"), obj("Circle"), obj("Polygon"), obj("ShapeGroup"))


# ---- states --------------------------------------------------------------------------------------------------

STATE_CLASSES = ["InitialState", "PMState", "ExtendedPMState", "KSState", "KSTState", "STState", "STDState", "MBState",
                 "LongitudinalState", "LateralState", "InputState", "PMInputState", "LKSInputState"]
ANGLE_FIELDS = {"orientation", "hitch_angle"}
VALUE = OneOf(SCALAR, obj("Interval"))
ANGLE_VALUE = OneOf(ANGLE, obj("AngleInterval"))
POSITION = OneOf(POINT, simple_shape())


def field_kind(name):
    if name == "time_step":
        return OD(TIME)
    if name == "position":
        return OD(POSITION)
    if name in ANGLE_FIELDS:
        return OD(ANGLE_VALUE)
    return OD(VALUE)


def state_fields(cls_name):
    import dataclasses
    return [f.name for f in dataclasses.fields(getattr(S, cls_name))]


for _n in STATE_CLASSES:
    Spec(_n, getattr(S, _n), {f: field_kind(f) for f in state_fields(_n)})

CUSTOM_FIELDS = {"time_step": Opt(TIME), "position": Opt(POSITION), "orientation": Opt(ANGLE_VALUE),
                 "velocity": Opt(VALUE), "acceleration": Opt(VALUE), "yaw_rate": Opt(VALUE), "slip_angle": Opt(VALUE),
                 "lateral_jerk": Opt(VALUE), "my_counter": Opt(Int(-5, 5)), "label": Opt(Choice(["a", "b", "ego"]))}
Spec("CustomState", S.CustomState, {"attributes": KwArgs(CUSTOM_FIELDS, required=["time_step"], allow_empty=True)},
     varkw="attributes", attrs={"attributes": lambda o: {a: getattr(o, a) for a in o.attributes}})

SIGNAL_FIELDS = {n: BOOL for n in S.SignalState.__slots__ if n != "time_step"}
SIGNAL_FIELDS["time_step"] = TIME_STEP
Spec("SignalState", S.SignalState, {"kwargs": KwArgs(SIGNAL_FIELDS, allow_empty=True)}, varkw="kwargs",
     attrs={"kwargs": lambda o: {a: getattr(o, a) for a in S.SignalState.__slots__ if hasattr(o, a)}})

WORD = Choice(["a", "b", "lane", "speed", "x1"])
Spec("MetaInformationState", S.MetaInformationState, {
    "meta_data_str": OD(DictOf(WORD, Choice(["u", "v", "w", ""]))),
    "meta_data_int": OD(DictOf(WORD, Int(-9, 9))),
    "meta_data_float": OD(DictOf(WORD, SCALAR)),
    "meta_data_bool": OD(DictOf(WORD, BOOL))})


def exact_state(cls_name, required, t=True):
    """Obj kind of a state class whose listed fields are always exact values (never None / intervals)."""
    over = {}
    for f in required:
        over[f] = POINT if f == "position" else (ANGLE if f in ANGLE_FIELDS else SCALAR)
    if t:
        over["time_step"] = TIME_STEP
    return Obj(cls_name, over)


# ---- trajectory ----------------------------------------------------------------------------------------------

TRAJ_CLASSES = ["KSState", "PMState", "STState", "InitialState", "ExtendedPMState", "KSTState", "InputState",
                "LongitudinalState"]


def _exact_field(f):
    return POINT if f == "position" else (ANGLE if f in ANGLE_FIELDS else SCALAR)


def _traj_gen(with_pose):
    def g(spec):
        def states(t):
            cls_name, t0, n, mask = t
            fields = [f for f in state_fields(cls_name) if f != "time_step"]
            used = [f for f, m in zip(fields, mask) if m or (with_pose and f in ("position", "orientation"))]
            if not used:
                used = fields[:1]
            one = st.tuples(*[_exact_field(f).strategy() for f in used])
            return st.lists(one, min_size=n, max_size=n).map(lambda rows: {
                "initial_time_step": t0,
                "state_list": {"$list": [{"$o": cls_name, "args": dict(
                    {f: D for f in fields}, time_step=t0 + i, **dict(zip(used, row)))} for i, row in enumerate(rows)]}})
        classes = ["KSState", "STState", "InitialState", "KSTState"] if with_pose else TRAJ_CLASSES
        return st.tuples(st.sampled_from(classes), st.integers(0, 30), st.integers(1, 4),
                         st.lists(st.booleans(), min_size=30, max_size=30)).flatmap(states)
    return g


def _traj_shift(spec, draw, args):
    d = 1 + index(draw, 7)
    sl = [{"$o": s["$o"], "args": dict(s["args"], time_step=s["args"]["time_step"] + d)}
          for s in args["state_list"]["$list"]]
    return {"initial_time_step": args["initial_time_step"] + d, "state_list": {"$list": sl}}


def _traj_states(spec, draw, args):
    sl = args["state_list"]["$list"]
    used = [f for f, w in sl[0]["args"].items() if f != "time_step" and not is_default(w)]
    ops = ["change", "change", "change", "append"] + (["drop"] if len(sl) > 1 else [])
    op = pick(draw, ops)
    if op == "change":
        i, f = index(draw, len(sl)), pick(draw, used)
        w = _exact_field(f).perturb(draw, sl[i]["args"][f])
        out = sl[:i] + [{"$o": sl[i]["$o"], "args": dict(sl[i]["args"], **{f: w})}] + sl[i + 1:]
    elif op == "append":
        last = sl[-1]
        row = {f: draw(_exact_field(f).strategy()) for f in used}
        out = sl + [{"$o": last["$o"], "args": dict(last["args"], time_step=last["args"]["time_step"] + 1, **row)}]
    else:
        out = sl[:-1]
    return {"state_list": {"$list": out}}


STATE_ANY = OneOf(*[obj(n) for n in STATE_CLASSES])
Spec("Trajectory", Trajectory, {"initial_time_step": TIME_STEP, "state_list": ListOf(STATE_ANY, 1, 4)},
     gen_args=_traj_gen(False), perturbers={"initial_time_step": _traj_shift, "state_list": _traj_states})
SPECS["PoseTrajectory"] = Spec("Trajectory", Trajectory, SPECS["Trajectory"].params, gen_args=_traj_gen(True),
                               perturbers=SPECS["Trajectory"].perturbers, register=False)

# ---- predictions ---------------------------------------------------------------------------------------------

Spec("Occupancy", Occupancy, {"time_step": TIME, "shape": any_shape()})
Spec("SetBasedPrediction", SetBasedPrediction,
     {"initial_time_step": TIME_STEP, "occupancy_set": ListOf(obj("Occupancy"), 1, 3)})
ASSIGNMENT = DictOf(TIME_STEP, SetOf(ID, 0, 3), 0, 3)
Spec("TrajectoryPrediction", TrajectoryPrediction, {
    "trajectory": obj("PoseTrajectory"), "shape": any_shape(True), "center_lanelet_assignment": OD(ASSIGNMENT),
    "shape_lanelet_assignment": OD(ASSIGNMENT), "kwargs": Const({"$dict": []})}, varkw="kwargs",
    attrs={"kwargs": lambda o: {"wheelbase_lengths": o.wheelbase_lengths}})

# ---- obstacles -----------------------------------------------------------------------------------------------

OBSTACLE_TYPE = EnumK(OB.ObstacleType)
OBSTACLE_STATE = exact_state("InitialState", ["position", "orientation"])
IDSET = SetOf(ID, 0, 5)
SIGNAL = obj("SignalState")
Spec("StaticObstacle", OB.StaticObstacle, {
    "obstacle_id": ID, "obstacle_type": OBSTACLE_TYPE, "obstacle_shape": any_shape(True),
    "initial_state": OBSTACLE_STATE, "initial_center_lanelet_ids": OD(IDSET), "initial_shape_lanelet_ids": OD(IDSET),
    "initial_signal_state": OD(SIGNAL), "signal_series": OD(ListOf(SIGNAL, 0, 3))})
META = obj("MetaInformationState")
Spec("DynamicObstacle", OB.DynamicObstacle, {
    "obstacle_id": ID, "obstacle_type": OBSTACLE_TYPE, "obstacle_shape": any_shape(True),
    "initial_state": OBSTACLE_STATE,
    "prediction": OD(OneOf(obj("TrajectoryPrediction"), obj("SetBasedPrediction"))),
    "initial_center_lanelet_ids": OD(IDSET), "initial_shape_lanelet_ids": OD(IDSET),
    "initial_signal_state": OD(SIGNAL), "signal_series": OD(ListOf(SIGNAL, 0, 3)),
    "initial_meta_information_state": OD(META), "meta_information_series": OD(ListOf(META, 0, 2)),
    "external_dataset_id": OD(Int(0, 1000)),
    "history": OD(ListOf(exact_state("KSState", ["position", "orientation"]), 0, 2)),
    "signal_history": OD(ListOf(SIGNAL, 0, 2)),
    "center_lanelet_ids_history": OD(ListOf(IDSET, 0, 2)), "shape_lanelet_ids_history": OD(ListOf(IDSET, 0, 2)),
    "kwargs": Const({"$dict": []})}, varkw="kwargs",
    attrs={"kwargs": lambda o: {"wheelbase_lengths": getattr(o, "wheelbase_lengths", None)}})
Spec("PhantomObstacle", OB.PhantomObstacle, {"obstacle_id": ID, "prediction": OD(obj("SetBasedPrediction"))})
Spec("EnvironmentObstacle", OB.EnvironmentObstacle,
     {"obstacle_id": ID, "obstacle_type": OBSTACLE_TYPE, "obstacle_shape": any_shape(True)})

# ---- lanelet elements ----------------------------------------------------------------------------------------

LINE_MARKING = EnumK(CL.LineMarking)
Spec("StopLine", CL.StopLine, {"start": POINT, "end": POINT, "line_marking": LINE_MARKING,
                               "traffic_sign_ref": OD(IDSET), "traffic_light_ref": OD(IDSET)})
IDLIST = ListOf(ID, 0, 4, key=lambda e: e)        # membership-only lists of ids: members change, order does not


def _lanelet_valid(a):
    for side in ("left", "right"):
        adj, same = a["adjacent_" + side], a["adjacent_%s_same_direction" % side]
        if not (is_default(adj) or adj is None) and not isinstance(same, bool):
            return False
    return len(a["left_vertices"]["$arr"]) == len(a["center_vertices"]["$arr"]) == len(a["right_vertices"]["$arr"])


def _lanelet_gen(spec):
    names = [p for p in spec.params if p not in ("left_vertices", "center_vertices", "right_vertices")]

    def long_lines(t):
        p0, h, w, n = t
        c = [[p0[0] + k * math.cos(h), p0[1] + k * math.sin(h)] for k in range(n)]
        nx, ny = -math.sin(h), math.cos(h)
        return {"left": [[p[0] + w * nx, p[1] + w * ny] for p in c], "center": c,
                "right": [[p[0] - w * nx, p[1] - w * ny] for p in c]}
    long = st.tuples(st.tuples(coordinate(), coordinate()), angle(), st.floats(0.8, 3.0), st.integers(501, 510)).map(
        long_lines)
    lines = st.one_of(*([G.lanelet_polylines(lim=1000)] * (LONG_ONE_IN - 1) + [long]))

    def fix(t):
        ll, vals = t
        a = dict(zip(names, vals))
        for side in ("left", "right"):
            adj, key = a["adjacent_" + side], "adjacent_%s_same_direction" % side
            if not (is_default(adj) or adj is None) and not isinstance(a[key], bool):
                a[key] = bool(len(canon(a)) % 2)
        for k in ("left", "center", "right"):
            a[k + "_vertices"] = {"$arr": [list(map(float, p)) for p in ll[k]]}
        return {p: a[p] for p in spec.params}
    return st.tuples(lines, st.tuples(*[spec.params[p].strategy() for p in names])).map(fix)


def _adjacent(side):
    key, same = "adjacent_" + side, "adjacent_%s_same_direction" % side

    def p(spec, draw, args):
        w = spec.params[key].perturb(draw, args[key])
        ch = {key: w}
        if not (is_default(w) or w is None) and not isinstance(args[same], bool):
            ch[same] = True
        return ch
    return p


LANELET_POLYLINE = Polyline(2, 8, long=False)
Spec("Lanelet", LL.Lanelet, {
    "left_vertices": LANELET_POLYLINE, "center_vertices": LANELET_POLYLINE, "right_vertices": LANELET_POLYLINE,
    "lanelet_id": ID, "predecessor": OD(IDLIST), "successor": OD(IDLIST),
    "adjacent_left": OD(ID), "adjacent_left_same_direction": OD(BOOL),
    "adjacent_right": OD(ID), "adjacent_right_same_direction": OD(BOOL),
    "line_marking_left_vertices": Dflt(LINE_MARKING), "line_marking_right_vertices": Dflt(LINE_MARKING),
    "stop_line": OD(obj("StopLine")), "lanelet_type": OD(SetOf(EnumK(CL.LaneletType), 0, 3)),
    "user_one_way": OD(SetOf(EnumK(CL.RoadUser), 0, 3)), "user_bidirectional": OD(SetOf(EnumK(CL.RoadUser), 0, 3)),
    "traffic_signs": OD(IDSET), "traffic_lights": OD(IDSET), "adjacent_areas": OD(IDSET)},
    attrs={"adjacent_left": "adj_left", "adjacent_left_same_direction": "adj_left_same_direction",
           "adjacent_right": "adj_right", "adjacent_right_same_direction": "adj_right_same_direction"},
    gen_args=_lanelet_gen, valid=_lanelet_valid,
    perturbers={"adjacent_left": _adjacent("left"), "adjacent_right": _adjacent("right")})

SIGN_ID = EnumK(TS.TrafficSignIDGermany, TS.TrafficSignIDUsa, TS.TrafficSignIDSpain, TS.TrafficSignIDChina,
                TS.TrafficSignIDRussia, TS.TrafficSignIDAustralia,
                members={"MAX_SPEED", "MIN_SPEED", "STOP", "YIELD", "PRIORITY", "RIGHT_OF_WAY", "TOWN_SIGN",
                         "NO_OVERTAKING_START", "U_TURN", "GREEN_ARROW", "WARNING_SLIPPERY_ROAD", "NO_ENTRY",
                         "MAX_SPEED_ZONE_START", "BAN_CAR_TRUCK_BUS_MOTORCYCLE", "MAX_WIDTH", "UNKNOWN"})
# additional_values is documented as a *list*, compared by the library as a set: perturbations change the membership
# only (different under both readings); order and duplicates are never varied
Spec("TrafficSignElement", TS.TrafficSignElement, {
    "traffic_sign_element_id": SIGN_ID,
    "additional_values": Dflt(ListOf(Choice(["30", "50", "80.5", "120", "Garching", "15:00"]), 0, 3,
                                     key=lambda e: e))})
Spec("TrafficSign", TS.TrafficSign, {
    "traffic_sign_id": ID,
    "traffic_sign_elements": ListOf(obj("TrafficSignElement"), 1, 3,
                                    key=lambda e: e["args"]["traffic_sign_element_id"]),
    "first_occurrence": Opt(IDSET), "position": POINT, "virtual": Dflt(BOOL)})
LIGHT_STATE = EnumK(TL.TrafficLightState)
Spec("TrafficLightCycleElement", TL.TrafficLightCycleElement, {"state": LIGHT_STATE, "duration": Int(1, 40)})
Spec("TrafficLightCycle", TL.TrafficLightCycle, {
    "cycle_elements": OD(ListOf(obj("TrafficLightCycleElement"), 0, 4)), "time_offset": Dflt(Int(0, 30)),
    "active": Dflt(BOOL)})
Spec("TrafficLight", TL.TrafficLight, {
    "traffic_light_id": ID, "position": POINT, "traffic_light_cycle": OD(obj("TrafficLightCycle")),
    "color": OD(ListOf(LIGHT_STATE, 0, 3)), "active": Dflt(BOOL), "direction": Dflt(EnumK(TL.TrafficLightDirection)),
    "shape": OD(obj("Rectangle"))})
Spec("IntersectionIncomingElement", IS.IntersectionIncomingElement, {
    "incoming_id": ID, "incoming_lanelets": OD(IDSET), "successors_right": OD(IDSET),
    "successors_straight": OD(IDSET), "successors_left": OD(IDSET), "left_of": OD(ID)})
Spec("Intersection", IS.Intersection, {
    "intersection_id": ID,
    "incomings": ListOf(obj("IntersectionIncomingElement"), 1, 3, key=lambda e: e["args"]["incoming_id"]),
    "crossings": OD(IDSET)})
Spec("AreaBorder", AR.AreaBorder, {"area_border_id": ID, "border_vertices": Polyline(2, 6),
                                   "adjacent": OD(IDLIST), "line_marking": OD(LINE_MARKING)})
Spec("Area", AR.Area, {"area_id": ID, "border": OD(ListOf(obj("AreaBorder"), 0, 3)),
                       "area_types": OD(SetOf(EnumK(AR.AreaType), 0, 3))})

# ---- meta data -----------------------------------------------------------------------------------------------

Spec("Time", Time, {"hours": Int(0, 24), "minutes": Int(0, 60), "day": OD(Int(1, 31)), "month": OD(Int(1, 12)),
                    "year": OD(Int(1990, 2035))})
TEXT = Choice(["", "TUM", "Jane Doe", "scenario factory", "CC-BY 4.0", "x"])
Spec("MapInformation", LL.MapInformation, {
    "commonroad_version": Dflt(Choice(["2020a", "2023a", "2018b"])), "map_id": Dflt(TEXT), "date": OD(obj("Time")),
    "author": Dflt(TEXT), "affiliation": Dflt(TEXT), "source": Dflt(TEXT), "licence_name": Dflt(TEXT),
    "licence_text": OD(TEXT)})
Spec("GeoTransformation", SC.GeoTransformation, {
    "geo_reference": OD(Choice(["+proj=utm +zone=32 +ellps=WGS84", "EPSG:4326", "+proj=tmerc"])),
    "x_translation": OD(COORD), "y_translation": OD(COORD), "z_rotation": OD(ANGLE),
    "scaling": OD(Real(0.1, 10.0))})
Spec("Environment", SC.Environment, {"time": OD(obj("Time")), "time_of_day": OD(EnumK(SC.TimeOfDay)),
                                     "weather": OD(EnumK(SC.Weather)), "underground": OD(EnumK(SC.Underground))})
Spec("Location", SC.Location, {
    "geo_name_id": Dflt(Int(-999, 9999999)), "gps_latitude": Dflt(Real(-90.0, 999.0)),
    "gps_longitude": Dflt(Real(-180.0, 999.0)), "geo_transformation": OD(obj("GeoTransformation")),
    "environment": OD(obj("Environment"))})


def _sid_valid(a):
    pred, beh = a["prediction_id"], a["obstacle_behavior"]
    if not (is_default(pred) or pred is None) and (is_default(beh) or beh is None):
        return False
    return True


PRED_ID = OneOf(Int(1, 30), ListOf(Int(1, 30), 1, 3))
Spec("ScenarioID", SC.ScenarioID, {
    "cooperative": Dflt(BOOL), "country_id": Dflt(Opt(Choice(["ZAM", "DEU", "USA", "CHN", "ESP", "BEL", "FRA"]))),
    "map_name": Dflt(Choice(["Test", "US101", "Muc", "Lanker", "Te-st", "US_101", "A9"])), "map_id": Dflt(Int(1, 40)),
    "configuration_id": OD(Int(1, 40)), "obstacle_behavior": OD(Choice(["S", "T", "P", "I"])),
    "prediction_id": OD(PRED_ID), "scenario_version": Dflt(Choice(["2020a", "2018b"]))}, valid=_sid_valid)

# ---- planning ------------------------------------------------------------------------------------------------

GOAL_TIME = obj("TimeInterval")


def goal_state(cls_name):
    over = {f: Const(D) for f in state_fields(cls_name)}
    over.update({"time_step": GOAL_TIME, "position": OD(simple_shape()), "orientation": OD(obj("AngleInterval")),
                 "velocity": OD(obj("Interval"))})
    return Obj(cls_name, {f: k for f, k in over.items() if f in state_fields(cls_name)})


GOAL_CUSTOM = Obj("CustomState", {"attributes": KwArgs(
    {"time_step": GOAL_TIME, "position": simple_shape(), "orientation": obj("AngleInterval"),
     "velocity": obj("Interval")}, required=["time_step"])})
GOAL_STATE = OneOf(GOAL_CUSTOM, goal_state("InitialState"), goal_state("KSState"), goal_state("ExtendedPMState"),
                   goal_state("PMState"))
Spec("GoalRegion", GoalRegion, {
    "state_list": ListOf(GOAL_STATE, 1, 3),
    "lanelets_of_goal_position": OD(DictOf(Int(0, 2), ListOf(ID, 1, 3, key=lambda e: e), 0, 3))})
PLANNING_INITIAL = Obj("InitialState", {"time_step": TIME_STEP, "position": POINT, "orientation": ANGLE,
                                        "velocity": SCALAR, "yaw_rate": SCALAR, "slip_angle": SCALAR,
                                        "acceleration": OD(SCALAR)})
Spec("PlanningProblem", PlanningProblem, {"planning_problem_id": ID, "initial_state": PLANNING_INITIAL,
                                          "goal_region": obj("GoalRegion")},
     attrs={"goal_region": "goal"})
Spec("PlanningProblemSet", PlanningProblemSet, {
    "planning_problem_list": OD(ListOf(obj("PlanningProblem"), 0, 3,
                                       key=lambda e: e["args"]["planning_problem_id"]))},
     attrs={"planning_problem_list": "planning_problem_dict"})

# ---- containers ----------------------------------------------------------------------------------------------


def _unique(key):
    return lambda e: e["args"][key]


def _network_add(net, c):
    for la in c.get("lanelets", []):
        net.add_lanelet(la)
    for s in c.get("traffic_signs", []):
        net.add_traffic_sign(s, set())
    for t in c.get("traffic_lights", []):
        net.add_traffic_light(t, set())
    for i in c.get("intersections", []):
        net.add_intersection(i)
    for a in c.get("areas", []):
        net.add_area(a, set())


SMALL_LANELET = Obj("Lanelet")
Spec("LaneletNetwork", LL.LaneletNetwork, {"information": Dflt(obj("MapInformation"))}, content={
    "lanelets": ListOf(SMALL_LANELET, 0, 3, key=_unique("lanelet_id")),
    "traffic_signs": ListOf(obj("TrafficSign"), 0, 2, key=_unique("traffic_sign_id")),
    "traffic_lights": ListOf(obj("TrafficLight"), 0, 2, key=_unique("traffic_light_id")),
    "intersections": ListOf(obj("Intersection"), 0, 2, key=_unique("intersection_id")),
    "areas": ListOf(obj("Area"), 0, 2, key=_unique("area_id"))}, add=_network_add)


BIG_ID = Int(0, 4000)      # Scenario.add_objects requires globally unique ids: a wide range makes clashes rare


def _scenario_obstacle(name):
    """Obstacles inside a scenario: wide id range, no lanelet assignments (they would have to refer to lanelets)."""
    over = {"obstacle_id": BIG_ID}
    if name in ("StaticObstacle", "DynamicObstacle"):
        over.update({"initial_center_lanelet_ids": Const(D), "initial_shape_lanelet_ids": Const(D)})
    if name == "DynamicObstacle":
        tp = Obj("TrajectoryPrediction", {"center_lanelet_assignment": Const(D), "shape_lanelet_assignment": Const(D)})
        over["prediction"] = OD(OneOf(tp, obj("SetBasedPrediction")))
    return Obj(name, over)


def _scenario_ids(a):
    """All ids of the objects added to a scenario."""
    ids = []
    for key in ("static_obstacles", "dynamic_obstacles", "environment_obstacles", "phantom_obstacles"):
        ids += [e["args"]["obstacle_id"] for e in a[key]["$list"]]
    net = a["lanelet_network"]
    if not is_default(net):
        n = net["args"]
        ids += [e["args"]["lanelet_id"] for e in n["lanelets"]["$list"]]
        ids += [e["args"]["traffic_sign_id"] for e in n["traffic_signs"]["$list"]]
        ids += [e["args"]["traffic_light_id"] for e in n["traffic_lights"]["$list"]]
        for i in n["intersections"]["$list"]:
            ids.append(i["args"]["intersection_id"])
            ids += [e["args"]["incoming_id"] for e in i["args"]["incomings"]["$list"]]
    return ids


def _scenario_valid(a):
    ids = _scenario_ids(a)
    return len(ids) == len(set(ids))


def _scenario_add(sc, c):
    if "lanelet_network" in c:
        sc.add_objects(c["lanelet_network"])
    for key in ("static_obstacles", "dynamic_obstacles", "environment_obstacles", "phantom_obstacles"):
        for o in c.get(key, []):
            sc.add_objects(o)


SCENARIO_INTERSECTION = Obj("Intersection", {"intersection_id": BIG_ID, "incomings": ListOf(
    Obj("IntersectionIncomingElement", {"incoming_id": BIG_ID}), 1, 2, key=lambda e: e["args"]["incoming_id"])})
SCENARIO_NETWORK = Obj("LaneletNetwork", {
    "lanelets": ListOf(Obj("Lanelet", {"lanelet_id": BIG_ID}), 0, 2, key=_unique("lanelet_id")),
    "traffic_signs": ListOf(Obj("TrafficSign", {"traffic_sign_id": BIG_ID}), 0, 1),
    "traffic_lights": ListOf(Obj("TrafficLight", {"traffic_light_id": BIG_ID}), 0, 1),
    "intersections": ListOf(SCENARIO_INTERSECTION, 0, 1), "areas": ListOf(obj("Area"), 0, 1)})
Spec("Scenario", SC.Scenario, {
    "dt": Real(0.01, 1.0, strat=st.one_of(st.sampled_from([0.1, 0.04, 0.2, 0.5, 1.0]), st.floats(0.01, 1.0))),
    "scenario_id": Dflt(obj("ScenarioID")), "author": OD(TEXT), "tags": OD(SetOf(EnumK(SC.Tag), 0, 4)),
    "affiliation": OD(TEXT), "source": OD(TEXT), "location": OD(obj("Location"))},
    content={"lanelet_network": Dflt(SCENARIO_NETWORK),
             "static_obstacles": ListOf(_scenario_obstacle("StaticObstacle"), 0, 2, key=_unique("obstacle_id")),
             "dynamic_obstacles": ListOf(_scenario_obstacle("DynamicObstacle"), 0, 2, key=_unique("obstacle_id")),
             "environment_obstacles": ListOf(_scenario_obstacle("EnvironmentObstacle"), 0, 1),
             "phantom_obstacles": ListOf(_scenario_obstacle("PhantomObstacle"), 0, 1)},
    attrs={"environment_obstacles": "environment_obstacle", "phantom_obstacles": "phantom_obstacle"},
    add=_scenario_add, valid=_scenario_valid)

FACET_CLASSES = [
    "Rectangle", "Circle", "Polygon", "ShapeGroup", "Interval", "AngleInterval"] + STATE_CLASSES + [
    "CustomState", "SignalState", "MetaInformationState", "Trajectory", "Occupancy", "SetBasedPrediction",
    "TrajectoryPrediction", "StaticObstacle", "DynamicObstacle", "PhantomObstacle", "EnvironmentObstacle", "StopLine",
    "Lanelet", "TrafficSignElement", "TrafficSign", "TrafficLightCycleElement", "TrafficLightCycle", "TrafficLight",
    "IntersectionIncomingElement", "Intersection", "AreaBorder", "Area", "MapInformation", "LaneletNetwork",
    "GoalRegion", "PlanningProblem", "PlanningProblemSet", "ScenarioID", "Time", "GeoTransformation", "Environment",
    "Location", "Scenario"]


@st.composite
def case(draw, name):
    """{"cls", "args", "variants": [{"k": parameter, "set": {parameter(s): new value}}]}: one variant per parameter."""
    spec = SPECS[name]
    args = draw(spec.args_strategy())
    variants = []
    for p in spec.all_params():
        if spec.kind(p).fixed:
            continue
        variants.append({"k": p, "set": spec.perturb_param(draw, args, p)})
    return {"cls": name, "args": args, "variants": variants, "nudge": draw(st.integers(0, 63))}
