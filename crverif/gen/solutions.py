"""Recipes for ScenarioID and Solution objects (C13, C14)."""
import datetime
import math

import numpy as np
from hypothesis import strategies as st

import iso3166
from commonroad import SUPPORTED_COMMONROAD_VERSIONS
from commonroad.common.solution import (CostFunction, PlanningProblemSolution, Solution, SupportedCostFunctions,
                                        VehicleModel, VehicleType)
from commonroad.scenario.scenario import ScenarioID
from commonroad.scenario.state import (InputState, KSState, KSTState, MBState, PMInputState, PMState, STState)
from commonroad.scenario.trajectory import Trajectory

COUNTRIES = sorted(iso3166.countries_by_alpha3.keys()) + ["ZAM"]
VERSIONS = sorted(SUPPORTED_COMMONROAD_VERSIONS)
ALNUM = "abcdefghijklmnopqrstuvwxyzABCDEFGHIJKLMNOPQRSTUVWXYZ0123456789"

# ---- documented field tables (own copy: CommonRoadSolution_schema.xsd + vehicle model documentation; the KST state adds
# the hitch angle to the KS state). attribute name -> XML element name. NOT imported from solution.py on purpose.
DOC_FIELDS = {
    "PM": [("position", ("x", "y")), ("velocity", "xVelocity"), ("velocity_y", "yVelocity")],
    "KS": [("position", ("x", "y")), ("steering_angle", "steeringAngle"), ("velocity", "velocity"),
           ("orientation", "orientation")],
    "KST": [("position", ("x", "y")), ("steering_angle", "steeringAngle"), ("velocity", "velocity"),
            ("orientation", "orientation"), ("hitch_angle", None)],
    "ST": [("position", ("x", "y")), ("steering_angle", "steeringAngle"), ("velocity", "velocity"),
           ("orientation", "orientation"), ("yaw_rate", "yawRate"), ("slip_angle", "slipAngle")],
    "MB": [("position", ("x", "y")), ("steering_angle", "steeringAngle"), ("velocity", "velocity"),
           ("orientation", "orientation"), ("yaw_rate", "yawRate"), ("roll_angle", "rollAngle"),
           ("roll_rate", "rollRate"), ("pitch_angle", "pitchAngle"), ("pitch_rate", "pitchRate"),
           ("velocity_y", "yVelocity"), ("position_z", "zPosition"), ("velocity_z", "zVelocity"),
           ("roll_angle_front", "rollAngleFront"), ("roll_rate_front", "rollRateFront"),
           ("velocity_y_front", "yVelocityFront"), ("position_z_front", "zPositionFront"),
           ("velocity_z_front", "zVelocityFront"), ("roll_angle_rear", "rollAngleRear"),
           ("roll_rate_rear", "rollRateRear"), ("velocity_y_rear", "yVelocityRear"),
           ("position_z_rear", "zPositionRear"), ("velocity_z_rear", "zVelocityRear"),
           ("left_front_wheel_angular_speed", "leftFrontWheelAngularSpeed"),
           ("right_front_wheel_angular_speed", "rightFrontWheelAngularSpeed"),
           ("left_rear_wheel_angular_speed", "leftRearWheelAngularSpeed"),
           ("right_rear_wheel_angular_speed", "rightRearWheelAngularSpeed"), ("delta_y_f", "deltaYf"),
           ("delta_y_r", "deltaYr")],
    "Input": [("steering_angle_speed", "steeringAngleSpeed"), ("acceleration", "acceleration")],
    "PMInput": [("acceleration", "xAcceleration"), ("acceleration_y", "yAcceleration")],
}
DOC_TRAJ_TAG = {"PM": "pmTrajectory", "KS": "ksTrajectory", "KST": "kstTrajectory", "ST": "stTrajectory",
                "MB": "mbTrajectory", "Input": "inputVector", "PMInput": "pmInputVector"}
DOC_STATE_TAG = {"PM": "pmState", "KS": "ksState", "KST": "kstState", "ST": "stState", "MB": "mbState",
                 "Input": "input", "PMInput": "pmInput"}
SCHEMA_ORDER = ["PMInput", "Input", "PM", "KS", "ST", "MB"]  # order of the trajectory kinds in the shipped XSD
STATE_CLASS = {"PM": PMState, "KS": KSState, "KST": KSTState, "ST": STState, "MB": MBState, "Input": InputState,
               "PMInput": PMInputState}
# trajectory kinds admissible per vehicle model (documented: input vectors for KS/ST/MB, PM input vectors for PM)
KINDS_FOR_MODEL = {"PM": ["PM", "PMInput"], "KS": ["KS", "Input"], "ST": ["ST", "Input"], "MB": ["MB", "Input"],
                   "KST": ["KST"]}
COSTS_FOR_MODEL = {"PM": ["JB1", "WX1", "MW1"]}
ALL_COSTS = ["JB1", "SA1", "WX1", "SM1", "SM2", "SM3", "MW1", "TR1"]


def scenario_id_recipe():
    num = st.one_of(st.integers(1, 12), st.sampled_from([1, 9, 10, 99, 100, 12345, 10 ** 9]))
    def build(t):
        coop, country, name, map_id, conf, behav, pred, version = t
        if behav is None:
            pred = None
        return {"cooperative": coop, "country_id": country, "map_name": name, "map_id": map_id,
                "configuration_id": conf, "obstacle_behavior": behav, "prediction_id": pred,
                "scenario_version": version}
    return st.tuples(
        st.booleans(), st.sampled_from(COUNTRIES), st.text(ALNUM, min_size=1, max_size=12), num,
        st.one_of(st.none(), num), st.sampled_from([None, "S", "T", "P", "I"]),
        st.one_of(st.none(), num, st.lists(num, min_size=2, max_size=4)), st.sampled_from(VERSIONS)).map(build)


def build_scenario_id(r):
    pred = r["prediction_id"]
    return ScenarioID(r["cooperative"], r["country_id"], r["map_name"], r["map_id"], r["configuration_id"],
                      r["obstacle_behavior"], list(pred) if isinstance(pred, list) else pred, r["scenario_version"])


def normalised_id_fields(r):
    """What the documented constructor defaults make of the arguments."""
    conf, behav, pred = r["configuration_id"], r["obstacle_behavior"], r["prediction_id"]
    is_map = conf is None and behav is None and pred is None
    if not is_map:
        if behav is not None or pred is not None:
            pred = pred or 1
        conf = conf or 1
    return dict(r, configuration_id=conf, prediction_id=pred)


def reference_id_string(r):
    n = normalised_id_fields(r)
    s = "%s_%s-%d" % (n["country_id"], n["map_name"], n["map_id"])
    if n["configuration_id"] is not None:
        s += "_%d" % n["configuration_id"]
        if n["obstacle_behavior"] is not None:
            preds = n["prediction_id"] if isinstance(n["prediction_id"], list) else [n["prediction_id"]]
            s += "_" + n["obstacle_behavior"] + "".join("-%d" % p for p in preds)
    if n["cooperative"]:
        s = "C-" + s
    return s


# ------------------------------------------------------------------------------------------------------ solutions
def value(extreme=True):
    parts = [st.floats(-100, 100, allow_nan=False), st.floats(-100, 100, allow_nan=False), st.integers(-50, 50),
             st.floats(allow_nan=False, allow_infinity=False),
             st.sampled_from([0.0, -0.0, 0.1, 1 / 3, 1e-7, 123456789.123456789, 5e-324, 2.2250738585072014e-308,
                              1.7976931348623157e308, -1e300, 1e16, 1e22, 0.30000000000000004])]
    return st.one_of(*parts)


def pps_recipe(pp_id, extreme=True):
    def for_model(model):
        kind = st.sampled_from(KINDS_FOR_MODEL[model])
        cost = st.sampled_from(COSTS_FOR_MODEL.get(model, ALL_COSTS))
        return st.tuples(kind, cost, st.integers(1, 4), st.integers(0, 30), st.integers(1, 6), st.booleans()).flatmap(
            lambda t: st.fixed_dictionaries({
                "pp_id": st.just(pp_id), "model": st.just(model), "kind": st.just(t[0]), "cost": st.just(t[1]),
                "vtype": st.just(t[2]), "t0": st.just(t[3]), "np_values": st.just(t[5]),
                "states": st.lists(st.lists(value(extreme), min_size=nvalues(t[0]), max_size=nvalues(t[0])),
                                   min_size=t[4], max_size=t[4])}))
    return st.sampled_from(["PM", "KS", "ST", "MB", "KST"]).flatmap(for_model)


def nvalues(kind):
    return sum(2 if isinstance(x, tuple) or a == "position" else 1 for a, x in DOC_FIELDS[kind])


def state_kwargs(kind, vals, as_np):
    kw = {}
    i = 0
    for attr, _ in DOC_FIELDS[kind]:
        if attr == "position":
            kw[attr] = np.array([vals[i], vals[i + 1]])
            i += 2
        else:
            v = vals[i]
            if as_np and isinstance(v, float):
                v = np.float64(v)
            kw[attr] = v
            i += 1
    return kw


def build_trajectory(p):
    states = []
    for k, vals in enumerate(p["states"]):
        states.append(STATE_CLASS[p["kind"]](time_step=p["t0"] + k, **state_kwargs(p["kind"], vals, p["np_values"])))
    return Trajectory(p["t0"], states)


def build_pps(p):
    return PlanningProblemSolution(p["pp_id"], VehicleModel[p["model"]], VehicleType(p["vtype"]),
                                   CostFunction[p["cost"]], build_trajectory(p))


PROC_ALPHABET = "".join(chr(c) for c in range(32, 127))


def solution_recipe(extreme=True, max_pps=4):
    def pps_list(ids):
        return st.tuples(*[pps_recipe(i, extreme) for i in ids]).map(list)
    ids = st.lists(st.integers(0, 500), min_size=1, max_size=max_pps, unique=True)
    return st.fixed_dictionaries({
        "scenario_id": scenario_id_recipe(),
        "pps": ids.flatmap(pps_list),
        "date": st.one_of(st.none(), st.datetimes(min_value=datetime.datetime(1000, 1, 1),
                                                  max_value=datetime.datetime(9999, 12, 31, 23, 59, 59)).map(
            lambda d: [d.year, d.month, d.day, d.hour, d.minute, d.second, d.microsecond])),
        "computation_time": st.one_of(st.none(), st.floats(1e-9, 1e6, allow_nan=False), st.integers(1, 10000),
                                      st.floats(min_value=1e-300, max_value=1e300, allow_nan=False)),
        "processor_name": st.one_of(st.none(), st.text(PROC_ALPHABET, min_size=1, max_size=30).filter(
            lambda s: s != "auto")),
        "pretty": st.booleans(),
        # optional later edit of an already used solution: [pp index, new vehicle type or None, cost index or None,
        # new computation time or None]
        "edit": st.one_of(st.none(), st.none(), st.tuples(
            st.integers(0, 3), st.one_of(st.none(), st.integers(1, 4)), st.one_of(st.none(), st.integers(0, 7)),
            st.one_of(st.none(), st.floats(1e-3, 1e3)), st.booleans(), st.booleans()).map(list)),
    })


def reference_benchmark_id(r):
    """'vehicles:costs:scenario:version' printed from the recipe alone."""
    vehicles = ["%s%d" % (p["model"], p["vtype"]) for p in r["pps"]]
    costs = [p["cost"] for p in r["pps"]]
    return "%s:%s:%s:%s" % (vehicles[0] if len(vehicles) == 1 else "[%s]" % ",".join(vehicles),
                            costs[0] if len(costs) == 1 else "[%s]" % ",".join(costs),
                            reference_id_string(r["scenario_id"]), r["scenario_id"]["scenario_version"])


def apply_edit(sol, r):
    """Edits an existing Solution through public attributes / setters as r["edit"] prescribes; returns the recipe that
    describes the edited solution (None if the recipe has no edit)."""
    e = r.get("edit")
    if not e:
        return None
    import copy
    r2 = copy.deepcopy(r)
    r2["edit"] = None
    i = e[0] % len(r["pps"])
    p = r2["pps"][i]
    target = sol.planning_problem_solutions[i]
    if e[1] is not None:
        target.vehicle_type = VehicleType(e[1])
        p["vtype"] = e[1]
    if e[2] is not None:
        costs = COSTS_FOR_MODEL.get(p["model"], ALL_COSTS)
        p["cost"] = costs[e[2] % len(costs)]
        target.cost_function = CostFunction[p["cost"]]
    if e[3] is not None:
        sol.computation_time = e[3]
        r2["computation_time"] = e[3]
    if len(e) > 5 and e[5]:
        # a trajectory that differs from the current one only far behind the decimal point (a re-planned solution):
        # the written values are the new ones, bit for bit
        def nudge(v):
            if isinstance(v, float) and v == v and abs(v) < 1e300:
                w = v + 3e-12 * (1.0 + abs(v))
                return w if w != v else v
            return v
        p["states"] = [[nudge(v) for v in vals] for vals in p["states"]]
        target.trajectory = build_trajectory(p)
    elif len(e) > 4 and e[4] and len(p["states"]) > 1:
        # a new trajectory of the same kind through the public trajectory setter (the value rows in reverse order)
        p["states"] = list(reversed(p["states"]))
        target.trajectory = build_trajectory(p)
    return r2


def build_solution(r):
    date = None if r["date"] is None else datetime.datetime(*r["date"])
    return Solution(build_scenario_id(r["scenario_id"]), [build_pps(p) for p in r["pps"]], date=date,
                    computation_time=r["computation_time"], processor_name=r["processor_name"])


def same_number(written, read):
    """written value (int/float/np) vs value read back: bit-identical doubles, ints numerically equal."""
    if isinstance(written, (bool, np.bool_)):
        return False
    w = float(written)
    return float(read).hex() == w.hex() or (w == 0.0 and float(read) == 0.0 and isinstance(written, (int, np.integer)))
