"""Enumeration members present (by NAME) in the shipped protobuf definition, read from the generated *_pb2 descriptors."""
import functools

from commonroad.common.common_lanelet import LaneletType, LineMarking, RoadUser
from commonroad.scenario.obstacle import ObstacleType
from commonroad.scenario.scenario import Tag, TimeOfDay, Underground, Weather
from commonroad.scenario.traffic_light import TrafficLightDirection, TrafficLightState
from commonroad.scenario_definition.protobuf_format.generated_scripts import (lanelet_pb2, location_pb2, obstacle_pb2,
                                                                              scenario_tags_pb2, traffic_light_pb2,
                                                                              traffic_sign_pb2)


def names(py_enum, pb_enum):
    keys = set(pb_enum.keys())
    return sorted(m.name for m in py_enum if m.name in keys)


@functools.lru_cache(None)
def pb_profile_base():
    obstacle_types = names(ObstacleType, obstacle_pb2.ObstacleTypeEnum.ObstacleType)
    tag_enum = None
    for d in scenario_tags_pb2.DESCRIPTOR.message_types_by_name.values():
        for e in d.enum_types:
            tag_enum = e
    tag_names = set(v.name for v in tag_enum.values) if tag_enum is not None else set()
    return {
        "line_markings": names(LineMarking, lanelet_pb2.LineMarkingEnum.LineMarking),
        "stop_markings": names(LineMarking, lanelet_pb2.LineMarkingEnum.LineMarking),
        "lanelet_types": names(LaneletType, lanelet_pb2.LaneletTypeEnum.LaneletType),
        "road_users": names(RoadUser, lanelet_pb2.RoadUserEnum.RoadUser),
        # roles keep the XML partition of types (the property's domain is "as in C01")
        "types_static": [t for t in obstacle_types if t in ("UNKNOWN", "PARKED_VEHICLE", "CONSTRUCTION_ZONE",
                                                            "ROAD_BOUNDARY")],
        "types_dynamic": [t for t in obstacle_types if t in ("UNKNOWN", "CAR", "TRUCK", "BUS", "MOTORCYCLE", "BICYCLE",
                                                             "PEDESTRIAN", "PRIORITY_VEHICLE", "TRAIN", "TAXI")],
        "types_environment": [t for t in obstacle_types if t in ("UNKNOWN", "BUILDING", "PILLAR", "MEDIAN_STRIP")],
        "light_colours": names(TrafficLightState, traffic_light_pb2.TrafficLightStateEnum.TrafficLightState),
        "light_directions": names(TrafficLightDirection,
                                  traffic_light_pb2.TrafficLightDirectionEnum.TrafficLightDirection),
        "time_of_day": names(TimeOfDay, location_pb2.TimeOfDayEnum.TimeOfDay),
        "weather": names(Weather, location_pb2.WeatherEnum.Weather),
        "underground": names(Underground, location_pb2.UndergroundEnum.Underground),
        "tags": sorted(m.name for m in Tag if m.name in tag_names),
        "sign_values": frozenset(),
    }


def pb_sign_names(enum_cls):
    """Members of a Python traffic-sign enum whose NAME exists in the corresponding pb enum."""
    pb_name = enum_cls.__name__  # e.g. TrafficSignIDGermany
    holder = getattr(traffic_sign_pb2, pb_name + "Enum", None)
    if holder is None:
        return []
    keys = set(getattr(holder, pb_name).keys())
    return sorted(m.name for m in enum_cls if m.name in keys)
