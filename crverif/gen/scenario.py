"""Recipes -> full library objects (lanelets, networks, signs, lights, intersections, obstacles, planning problems,
scenarios) and the composite strategies that generate such recipes (DESIGN 3.1-3.3)."""
import math

import numpy as np
from hypothesis import strategies as st

from commonroad.common.common_lanelet import LaneletType, LineMarking, RoadUser, StopLine
from commonroad.common.util import Interval, Time
from commonroad.planning.goal import GoalRegion
from commonroad.planning.planning_problem import PlanningProblem, PlanningProblemSet
from commonroad.prediction.prediction import Occupancy, SetBasedPrediction, TrajectoryPrediction
from commonroad.scenario.intersection import Intersection, IntersectionIncomingElement
from commonroad.scenario.lanelet import Lanelet, LaneletNetwork
from commonroad.scenario.obstacle import (DynamicObstacle, EnvironmentObstacle, ObstacleType, PhantomObstacle,
                                          StaticObstacle)
from commonroad.scenario.scenario import (Environment, GeoTransformation, Location, Scenario, Tag, TimeOfDay,
                                          Underground, Weather)
from commonroad.scenario.state import SignalState
from commonroad.scenario.traffic_light import (TrafficLight, TrafficLightCycle, TrafficLightCycleElement,
                                               TrafficLightDirection, TrafficLightState)
from commonroad.scenario.traffic_sign import TrafficSign, TrafficSignElement, TrafficSignIDCountries

from crverif.gen import geometry as gg
from crverif.gen.solutions import build_scenario_id, scenario_id_recipe
from crverif.gen.values import TWO_PI, angle, coord, point

SIGNAL_FIELDS = ["horn", "indicator_left", "indicator_right", "braking_lights", "hazard_warning_lights",
                 "flashing_blue_lights"]


def arr(v):
    return np.array(v, dtype=float)


# ---------------------------------------------------------------------------------------------------- builders
def build_stop_line(r):
    kw = {}
    if r.get("signs") is not None:
        kw["traffic_sign_ref"] = set(r["signs"])
    if r.get("lights") is not None:
        kw["traffic_light_ref"] = set(r["lights"])
    return StopLine(arr(r["start"]), arr(r["end"]), LineMarking[r["marking"]], **kw)


def build_lanelet(r):
    kw = {}
    if r.get("pred") is not None:
        kw["predecessor"] = list(r["pred"])
    if r.get("succ") is not None:
        kw["successor"] = list(r["succ"])
    if r.get("adj_left") is not None:
        kw["adjacent_left"] = r["adj_left"]
        kw["adjacent_left_same_direction"] = r["adj_left_same"]
    if r.get("adj_right") is not None:
        kw["adjacent_right"] = r["adj_right"]
        kw["adjacent_right_same_direction"] = r["adj_right_same"]
    if r.get("lm_left") is not None:
        kw["line_marking_left_vertices"] = LineMarking[r["lm_left"]]
    if r.get("lm_right") is not None:
        kw["line_marking_right_vertices"] = LineMarking[r["lm_right"]]
    if r.get("stop_line") is not None:
        kw["stop_line"] = build_stop_line(r["stop_line"])
    if r.get("types") is not None:
        kw["lanelet_type"] = {LaneletType[t] for t in r["types"]}
    if r.get("users_one") is not None:
        kw["user_one_way"] = {RoadUser[t] for t in r["users_one"]}
    if r.get("users_bi") is not None:
        kw["user_bidirectional"] = {RoadUser[t] for t in r["users_bi"]}
    if r.get("signs") is not None:
        kw["traffic_signs"] = set(r["signs"])
    if r.get("lights") is not None:
        kw["traffic_lights"] = set(r["lights"])
    return Lanelet(arr(r["left"]), arr(r["center"]), arr(r["right"]), r["id"], **kw)


def sign_enum_class(country):
    from commonroad.scenario.traffic_sign import TrafficSignIDZamunda
    return TrafficSignIDCountries.get(country, TrafficSignIDZamunda)


def sign_enum(country, name):
    return sign_enum_class(country)[name]


def build_sign(r):
    elements = [TrafficSignElement(sign_enum(e["country"], e["name"]), list(e["values"])) for e in r["elements"]]
    kw = {}
    if r.get("virtual") is not None:
        kw["virtual"] = r["virtual"]
    return TrafficSign(r["id"], elements, set(r["first_occurrence"]) if r.get("first_occurrence") is not None else None,
                       arr(r["position"]), **kw)


def build_cycle(r):
    kw = {}
    if r.get("offset") is not None:
        kw["time_offset"] = r["offset"]
    if r.get("cycle_active") is not None:
        kw["active"] = r["cycle_active"]
    return TrafficLightCycle([TrafficLightCycleElement(TrafficLightState[c], d) for c, d in r["cycle"]], **kw)


def build_light(r):
    kw = {}
    if r.get("cycle") is not None:
        kw["traffic_light_cycle"] = build_cycle(r)
    if r.get("color") is not None:
        kw["color"] = [TrafficLightState[c] for c in r["color"]]
    if r.get("active") is not None:
        kw["active"] = r["active"]
    if r.get("direction") is not None:
        kw["direction"] = TrafficLightDirection[r["direction"]]
    light = TrafficLight(r["id"], arr(r["position"]), **kw)
    if r.get("late_active") is not None:
        light.active = r["late_active"]
    return light


def build_incoming(r):
    kw = {}
    for k, name in (("lanelets", "incoming_lanelets"), ("right", "successors_right"),
                    ("straight", "successors_straight"), ("left", "successors_left")):
        if r.get(k) is not None:
            kw[name] = set(r[k])
    if r.get("left_of") is not None:
        kw["left_of"] = r["left_of"]
    return IntersectionIncomingElement(r["id"], **kw)


def build_intersection(r):
    kw = {}
    if r.get("crossings") is not None:
        kw["crossings"] = set(r["crossings"])
    return Intersection(r["id"], [build_incoming(i) for i in r["incomings"]], **kw)


def build_signal(r):
    kw = {k: v for k, v in r.items() if k != "t"}
    t = gg.decode(r["t"]) if isinstance(r["t"], dict) else r["t"]
    return SignalState(time_step=t, **kw)


def build_occupancy(r):
    t = gg.decode(r["t"]) if isinstance(r["t"], dict) else r["t"]
    return Occupancy(t, gg.build_shape(r["shape"]))


def build_prediction(r, shape_recipe):
    if r is None:
        return None
    if r["k"] == "traj":
        return TrajectoryPrediction(gg.build_trajectory(r["traj"]), gg.build_shape(r.get("shape") or shape_recipe))
    return SetBasedPrediction(r["t0"], [build_occupancy(o) for o in r["occ"]])


def build_obstacle(r):
    role = r["role"]
    if role == "environment":
        return EnvironmentObstacle(r["id"], ObstacleType[r["type"]], gg.build_shape(r["shape"]))
    if role == "phantom":
        if r.get("pred") is None:
            return PhantomObstacle(r["id"])
        return PhantomObstacle(r["id"], build_prediction(r["pred"], None))
    kw = {}
    if r.get("center_lanelets") is not None:
        kw["initial_center_lanelet_ids"] = set(r["center_lanelets"])
    if r.get("shape_lanelets") is not None:
        kw["initial_shape_lanelet_ids"] = set(r["shape_lanelets"])
    if r.get("signal0") is not None:
        kw["initial_signal_state"] = build_signal(r["signal0"])
    if r.get("signals") is not None:
        kw["signal_series"] = [build_signal(s) for s in r["signals"]]
    init = gg.build_state(r["init"])
    if role == "static":
        return StaticObstacle(r["id"], ObstacleType[r["type"]], gg.build_shape(r["shape"]), init, **kw)
    if r.get("pred") is not None:
        kw["prediction"] = build_prediction(r["pred"], r["shape"])
    return DynamicObstacle(r["id"], ObstacleType[r["type"]], gg.build_shape(r["shape"]), init, **kw)


def build_goal(r):
    states = [gg.build_state(s) for s in r["states"]]
    lan = r.get("lanelets")
    if lan is not None:
        lan = {int(k): list(v) for k, v in lan.items()}
    return GoalRegion(states, lan) if lan is not None else GoalRegion(states)


def build_planning_problem(r):
    return PlanningProblem(r["id"], gg.build_state(r["init"]), build_goal(r["goal"]))


def build_pps(rs):
    return PlanningProblemSet([build_planning_problem(r) for r in rs])


def build_location(r):
    if r is None:
        return None
    kw = {}
    for k in ("geo_name_id", "gps_latitude", "gps_longitude"):
        if r.get(k) is not None:
            kw[k] = r[k]
    if r.get("geo") is not None:
        g = r["geo"]
        kw["geo_transformation"] = GeoTransformation(**{k: v for k, v in g.items() if v is not None})
    if r.get("env") is not None:
        e = r["env"]
        t = e.get("time")
        kw["environment"] = Environment(
            None if t is None else Time(*t), None if e.get("time_of_day") is None else TimeOfDay[e["time_of_day"]],
            None if e.get("weather") is None else Weather[e["weather"]],
            None if e.get("underground") is None else Underground[e["underground"]])
    return Location(**kw)


def build_network(r, route="list"):
    """route: 'list' (create_from_lanelet_list + add_*), 'add' (lanelet by lanelet)."""
    lanelets = [build_lanelet(l) for l in r["lanelets"]]
    if route == "list":
        net = LaneletNetwork.create_from_lanelet_list(lanelets, cleanup_ids=False)
    else:
        net = LaneletNetwork()
        for la in lanelets:
            net.add_lanelet(la)
    for s in r.get("signs", []):
        net.add_traffic_sign(build_sign(s), set())
    for s in r.get("lights", []):
        net.add_traffic_light(build_light(s), set())
    for s in r.get("intersections", []):
        net.add_intersection(build_intersection(s))
    return net


def build_scenario(r, with_obstacles=True):
    kw = {}
    m = r.get("meta") or {}
    for k in ("author", "affiliation", "source"):
        if m.get(k) is not None:
            kw[k] = m[k]
    if m.get("tags") is not None:
        kw["tags"] = {Tag[t] for t in m["tags"]}
    if r.get("location") is not None:
        kw["location"] = build_location(r["location"])
    if r.get("scenario_id") is not None:
        kw["scenario_id"] = build_scenario_id(r["scenario_id"])
    sc = Scenario(r["dt"], **kw)
    for l in r["lanelets"]:
        sc.add_objects(build_lanelet(l))
    for s in r.get("signs", []):
        sc.add_objects(build_sign(s), set())
    for s in r.get("lights", []):
        sc.add_objects(build_light(s), set())
    for s in r.get("intersections", []):
        sc.add_objects(build_intersection(s))
    if with_obstacles:
        for o in r.get("obstacles", []):
            sc.add_objects(build_obstacle(o))
    return sc


# ---------------------------------------------------------------------------------------------------- strategies
LINE_MARKINGS = [m.name for m in LineMarking]
LANELET_TYPES = [m.name for m in LaneletType]
ROAD_USERS = [m.name for m in RoadUser]
OBSTACLE_TYPES = [m.name for m in ObstacleType]
LIGHT_COLOURS = [m.name for m in TrafficLightState]
LIGHT_DIRECTIONS = [m.name for m in TrafficLightDirection]
TAGS = [m.name for m in Tag]


class Ids:
    """Allocates distinct ids from a drawn permutation."""

    def __init__(self, pool):
        self.pool = list(pool)
        self.i = 0

    def new(self):
        v = self.pool[self.i]
        self.i += 1
        return v


def id_pool(n=80, hi=400):
    return st.lists(st.integers(1, hi), min_size=n, max_size=n, unique=True)


@st.composite
def network_recipe(draw, ids=None, max_lanelets=8, lim=200, profile=None):
    """Roads = chains of lanelets with optional left neighbours; crossing / disjoint placement; consistent relations."""
    profile = profile or {}
    if ids is None:
        ids = Ids(draw(id_pool()))
    lanelets = []
    n_roads = draw(st.integers(1, 3))
    anchor = None
    budget = max_lanelets
    for road in range(n_roads):
        if budget <= 0:
            break
        placement = draw(st.sampled_from(["cross", "cross", "far", "near"])) if anchor else "first"
        if placement == "first":
            start = draw(point(lim))
        elif placement == "far":
            start = [anchor[0] + 500.0 * (road + 1), anchor[1] - 300.0]
        elif placement == "near":
            start = [anchor[0] + draw(st.floats(-6, 6)), anchor[1] + draw(st.floats(-6, 6))]
        else:
            start = [anchor[0] + draw(st.floats(-15, 15)), anchor[1] + draw(st.floats(-15, 15))]
        heading = draw(angle())
        chain_len = draw(st.integers(1, min(3, budget)))
        neighbours = draw(st.sampled_from(["none", "none", "same", "opposite", "both"]))
        w = draw(st.floats(0.8, 3.0))
        prev = None
        for c in range(chain_len):
            if budget <= 0:
                break
            pl = draw(gg.lanelet_polylines(2, 6, 1.0, 20.0, w_min=w, w_max=w, start=start, heading=heading,
                                           wmul=3.0 if neighbours != "none" else 1.0))
            if anchor is None:
                anchor = pl["center"][len(pl["center"]) // 2]
            lid = ids.new()
            la = {"id": lid, "left": pl["left"], "right": pl["right"], "center": pl["center"], "pred": [], "succ": [],
                  "road": road}
            lanelets.append(la)
            budget -= 1
            if prev is not None:
                la["pred"].append(prev["id"])
                prev["succ"].append(lid)
            nb = None
            if neighbours != "none" and budget > 0:
                nid = ids.new()
                right = pl["left"]
                center = gg.offset_polyline(pl["center"], pl["heads"], 2 * w)
                left = gg.offset_polyline(pl["center"], pl["heads"], 3 * w)
                if neighbours in ("same", "both"):
                    nb = {"id": nid, "left": left, "right": right, "center": center, "pred": [], "succ": [],
                          "adj_right": lid, "adj_right_same": True, "road": road}
                    la["adj_left"], la["adj_left_same"] = nid, True
                else:
                    nb = {"id": nid, "left": right[::-1], "right": left[::-1], "center": center[::-1], "pred": [],
                          "succ": [], "adj_left": lid, "adj_left_same": False, "road": road}
                    la["adj_left"], la["adj_left_same"] = nid, False
                lanelets.append(nb)
                budget -= 1
                if neighbours == "both" and budget > 0:
                    # third lane: right neighbour (same direction) sharing the base lanelet's right boundary
                    rid = ids.new()
                    if draw(st.booleans()):
                        rb = {"id": rid, "left": pl["right"],
                              "center": gg.offset_polyline(pl["center"], pl["heads"], -2 * w),
                              "right": gg.offset_polyline(pl["center"], pl["heads"], -3 * w), "pred": [], "succ": [],
                              "adj_left": lid, "adj_left_same": True, "road": road}
                        la["adj_right"], la["adj_right_same"] = rid, True
                    else:
                        # oncoming lane on the RIGHT (left-hand traffic): it shares the base lanelet's right boundary,
                        # which is its own right boundary too
                        rb = {"id": rid, "left": gg.offset_polyline(pl["center"], pl["heads"], -3 * w)[::-1],
                              "center": gg.offset_polyline(pl["center"], pl["heads"], -2 * w)[::-1],
                              "right": pl["right"][::-1], "pred": [], "succ": [],
                              "adj_right": lid, "adj_right_same": False, "road": road}
                        la["adj_right"], la["adj_right_same"] = rid, False
                    lanelets.append(rb)
                    budget -= 1
                if prev is not None and prev.get("nb") is not None:
                    pn = prev["nb"]
                    if neighbours in ("same", "both"):
                        nb["pred"].append(pn["id"])
                        pn["succ"].append(nid)
                    else:
                        nb["succ"].append(pn["id"])
                        pn["pred"].append(nid)
            la["nb"] = nb
            prev = la
            start, heading = pl["center"][-1], pl["heads"][-1]
    for la in lanelets:
        la.pop("nb", None)
        la.pop("road", None)
        la["lm_left"] = draw(st.one_of(st.none(), st.sampled_from(profile.get("line_markings", LINE_MARKINGS))))
        la["lm_right"] = draw(st.one_of(st.none(), st.sampled_from(profile.get("line_markings", LINE_MARKINGS))))
        la["types"] = draw(st.lists(st.sampled_from(profile.get("lanelet_types", LANELET_TYPES)),
                                    min_size=profile.get("min_types", 0), max_size=3, unique=True))
        la["users_one"] = draw(st.lists(st.sampled_from(profile.get("road_users", ROAD_USERS)), max_size=3,
                                        unique=True))
        la["users_bi"] = draw(st.lists(st.sampled_from(profile.get("road_users", ROAD_USERS)), max_size=2,
                                       unique=True))
    return {"lanelets": lanelets, "signs": [], "lights": [], "intersections": []}


@st.composite
def add_signs_lights(draw, net, ids, profile=None, country="DEU"):
    """Signs / lights referenced by >= 1 lanelet, stop lines referring only to their lanelet's signs/lights,
    intersections with incomings/successors/crossings among the lanelets."""
    profile = profile or {}
    lanelets = net["lanelets"]
    lids = [l["id"] for l in lanelets]
    sign_names = profile.get("sign_names") or [m.name for m in sign_enum_class(country)]
    for _ in range(draw(st.integers(0, 3))):
        sid = ids.new()
        refs = draw(st.lists(st.sampled_from(lids), min_size=1, max_size=3, unique=True))
        n_el = draw(st.integers(1, min(2, len(sign_names))))
        names = draw(st.lists(st.sampled_from(sign_names), min_size=n_el, max_size=n_el, unique=True))
        elements = [{"country": country, "name": nm,
                     "values": draw(st.lists(st.sampled_from(["30", "50", "120", "2.5", "abc"]), max_size=2,
                                             unique=True))} for nm in names]
        net["signs"].append({"id": sid, "elements": elements, "position": draw(point(300)),
                             "first_occurrence": draw(st.lists(st.sampled_from(lids), max_size=2, unique=True)),
                             "virtual": draw(st.sampled_from([None, False, True] if profile.get("virtual_true", True)
                                                             else [None, False]))})
        for l in lanelets:
            if l["id"] in refs:
                l.setdefault("signs", []).append(sid)
    for _ in range(draw(st.integers(0, 3))):
        tid = ids.new()
        refs = draw(st.lists(st.sampled_from(lids), min_size=1, max_size=3, unique=True))
        cyc = draw(st.lists(st.tuples(st.sampled_from(profile.get("light_colours", LIGHT_COLOURS)),
                                      st.integers(1, 20)).map(list), min_size=1, max_size=5))
        late_active = None
        if profile.get("empty_cycles") and draw(st.integers(0, 3)) == 0:
            # a light whose cycle has no elements yet; its active flag is then given through the public setter
            cyc, late_active = [], draw(st.booleans())
        net["lights"].append({"id": tid, "position": draw(point(300)), "cycle": cyc, "late_active": late_active,
                              "offset": draw(st.one_of(st.none(), st.integers(0, 30))),
                              "active": draw(st.sampled_from([None, True, False])),
                              "direction": draw(st.one_of(st.none(), st.sampled_from(profile.get("light_directions", LIGHT_DIRECTIONS))))})
        for l in lanelets:
            if l["id"] in refs:
                l.setdefault("lights", []).append(tid)
    for l in lanelets:
        if draw(st.integers(0, 3)) == 0:
            sl = {"start": l["left"][-1], "end": l["right"][-1],
                  "marking": draw(st.sampled_from(profile.get("stop_markings", LINE_MARKINGS)))}
            # file formats keep a stop line's references independent of its lanelet's ("free_stop_refs")
            free = profile.get("free_stop_refs") and draw(st.booleans())
            pool_s = [x["id"] for x in net["signs"]] if free else l.get("signs")
            pool_l = [x["id"] for x in net["lights"]] if free else l.get("lights")
            if pool_s and draw(st.booleans()):
                sl["signs"] = draw(st.lists(st.sampled_from(pool_s), min_size=1, unique=True))
            if pool_l and draw(st.booleans()):
                sl["lights"] = draw(st.lists(st.sampled_from(pool_l), min_size=1, unique=True))
            where = draw(st.integers(0, 3))
            if where <= 1:
                sl["start"], sl["end"] = draw(point(300)), draw(point(300))
            elif where == 2:
                # a stop line a hair's breadth before the lanelet end (not exactly on it)
                e = draw(st.sampled_from([1e-7, 1e-6, 3e-5, 1e-3]))
                sl["start"] = [sl["start"][0] + e, sl["start"][1] - e]
                sl["end"] = [sl["end"][0] - e, sl["end"][1] + e]
            l["stop_line"] = sl
    if len(lids) >= 2:
        for _ in range(draw(st.integers(0, 2))):
            iid = ids.new()
            incs = []
            for _k in range(draw(st.integers(1, 3))):
                inc = {"id": ids.new(),
                       "lanelets": draw(st.lists(st.sampled_from(lids), min_size=1, max_size=2, unique=True)),
                       "right": draw(st.lists(st.sampled_from(lids), max_size=2, unique=True)),
                       "straight": draw(st.lists(st.sampled_from(lids), max_size=2, unique=True)),
                       "left": draw(st.lists(st.sampled_from(lids), max_size=2, unique=True))}
                incs.append(inc)
            for inc in incs:
                others = [i["id"] for i in incs if i["id"] != inc["id"]]
                inc["left_of"] = draw(st.sampled_from(others)) if others and draw(st.booleans()) else None
            net["intersections"].append({"id": iid, "incomings": incs,
                                         "crossings": draw(st.lists(st.sampled_from(lids), max_size=2, unique=True))})
    return net


def signal_recipe(t, profile=None):
    profile = profile or {}
    fields = profile.get("signal_fields", SIGNAL_FIELDS)
    return st.fixed_dictionaries({f: st.booleans() for f in fields}).map(lambda d: dict(d, t=t))


@st.composite
def obstacle_recipe(draw, oid, role=None, profile=None, lim=200, around=None):
    """Obstacle in the obstacle-shape convention (centred shapes), exact states, consecutive trajectory steps."""
    profile = profile or {}
    role = role or draw(st.sampled_from(profile.get("roles", ["static", "dynamic", "dynamic", "phantom",
                                                              "environment"])))
    types = profile.get("types_" + role, OBSTACLE_TYPES)
    pos = st.just(around) if around is not None else point(lim)
    if role == "environment":
        return {"role": role, "id": oid, "type": draw(st.sampled_from(types)),
                "shape": draw(gg.any_shape(centered=False) if profile.get("env_groups", True)
                              else gg.simple_shape(centered=False))}
    t0 = draw(profile.get("t0", st.integers(0, 5)))
    if role == "phantom":
        n = draw(st.integers(1, 5))
        occ = []
        t = t0
        for _ in range(n):
            if draw(st.booleans()):
                ln = draw(st.integers(0, 3))
                tt = {"iv": [t, t + ln]}
                t += ln + 1
            else:
                tt = t
                t += 1
            occ.append({"t": tt, "shape": draw(gg.any_shape(centered=False) if profile.get("occ_groups", True)
                                                else gg.simple_shape(centered=False))})
        return {"role": role, "id": oid, "pred": {"k": "set", "t0": t0, "occ": shuffled(draw, occ)}}
    shape = draw(profile.get("shape", gg.any_shape(centered=True)))
    init_fields = draw(profile.get("init_fields", st.just(["position", "orientation", "velocity", "acceleration",
                                                           "yaw_rate", "slip_angle"])))
    init = draw(gg.exact_state("InitialState", t0, fields=init_fields, lim=lim))
    if around is not None:
        init["a"]["position"] = [around[0] + draw(st.floats(-3, 3)), around[1] + draw(st.floats(-3, 3))]
    ob = {"role": role, "id": oid, "type": draw(st.sampled_from(types)), "shape": shape, "init": init}
    if draw(st.booleans()):
        ob["signal0"] = draw(signal_recipe(t0, profile))
    if role == "static":
        return ob
    kind = draw(st.sampled_from(profile.get("pred_kinds", ["traj", "traj", "set", "none"])))
    if kind == "traj":
        cls = draw(st.sampled_from(profile.get("traj_classes", ["KSState", "STState", "PMState", "ExtendedPMState",
                                                                 "InitialState", "MBState", "KSTState", "STDState"])))
        n = draw(st.integers(1, profile.get("max_traj", 8)))
        start = t0 + draw(profile.get("traj_start", st.sampled_from([1, 1, 1, 0, 2])))
        traj = draw(gg.trajectory(cls, start, n, lim=lim))
        if around is not None:
            for k, s in enumerate(traj["states"]):
                s["a"]["position"] = [init["a"]["position"][0] + 1.5 * (k + 1) + draw(st.floats(-1, 1)),
                                      init["a"]["position"][1] + draw(st.floats(-2, 2))]
        ob["pred"] = {"k": "traj", "traj": traj}
        if draw(st.booleans()):
            ob["signals"] = [draw(signal_recipe(start + k, profile)) for k in range(draw(st.integers(1, n)))]
    elif kind == "set":
        n = draw(st.integers(1, 5))
        occ = []
        t = t0 + 1
        for _ in range(n):
            if draw(st.booleans()):
                ln = draw(st.integers(0, 3))
                tt = {"iv": [t, t + ln]}
                t += ln + 1
            else:
                tt = t
                t += 1
            occ.append({"t": tt, "shape": draw(gg.simple_shape(centered=False))})
        ob["pred"] = {"k": "set", "t0": t0 + 1, "occ": shuffled(draw, occ)}
    return ob


def goal_state_recipe(profile=None):
    profile = profile or {}

    def build(t):
        tiv, pos, ori, vel = t
        a = {}
        if pos is not None:
            a["position"] = {"shape": pos}
        if ori is not None:
            a["orientation"] = ori
        if vel is not None:
            a["velocity"] = vel
        return {"cls": "CustomState", "t": {"iv": tiv}, "a": a}
    tiv = st.tuples(st.integers(0, 50), st.integers(0, 50)).map(lambda p: [p[0], p[0] + p[1]])
    return st.tuples(tiv, st.one_of(st.none(), profile.get("goal_shape", gg.any_shape(centered=False))),
                     st.one_of(st.none(), gg.angle_interval_value()),
                     st.one_of(st.none(), gg.interval_value(0.0, 40.0))).map(build)


@st.composite
def planning_problem_recipe(draw, pid, profile=None, lim=200):
    profile = profile or {}
    fields = ["position", "orientation", "velocity", "yaw_rate", "slip_angle"]
    if draw(st.booleans()):
        fields.append("acceleration")
    init = draw(gg.exact_state("InitialState", draw(profile.get("t0", st.integers(0, 5))), fields=fields, lim=lim))
    goals = draw(st.lists(goal_state_recipe(profile), min_size=1, max_size=3))
    return {"id": pid, "init": init, "goal": {"states": goals, "lanelets": None}}


def location_recipe():
    geo = st.one_of(st.none(), st.fixed_dictionaries({
        "geo_reference": st.one_of(st.none(), st.sampled_from(["+proj=utm +zone=32 +ellps=WGS84", "EPSG:4326"])),
        "x_translation": st.one_of(st.none(), coord(1e4)), "y_translation": st.one_of(st.none(), coord(1e4)),
        "z_rotation": st.one_of(st.none(), st.floats(-3, 3)), "scaling": st.one_of(st.none(), st.floats(0.1, 10))}))
    env = st.one_of(st.none(), st.fixed_dictionaries({
        "time": st.tuples(st.integers(0, 23), st.integers(0, 59)).map(list),
        "time_of_day": st.sampled_from([m.name for m in TimeOfDay]),
        "weather": st.sampled_from([m.name for m in Weather]),
        "underground": st.sampled_from([m.name for m in Underground])}))
    return st.one_of(st.none(), st.fixed_dictionaries({
        "geo_name_id": st.one_of(st.none(), st.integers(-999, 10 ** 7)),
        "gps_latitude": st.one_of(st.none(), st.floats(-90, 90)),
        "gps_longitude": st.one_of(st.none(), st.floats(-180, 180)), "geo": geo, "env": env}))


@st.composite
def scenario_recipe(draw, profile=None, max_lanelets=6, max_obstacles=5, max_pps=2, lim=200):
    profile = profile or {}
    ids = Ids(draw(id_pool(120, 600)))
    net = draw(network_recipe(ids=ids, max_lanelets=max_lanelets, lim=lim, profile=profile))
    if profile.get("signs_lights", True):
        net = draw(add_signs_lights(net, ids, profile))
    anchors = [l["center"][len(l["center"]) // 2] for l in net["lanelets"]]
    obstacles = []
    for _ in range(draw(st.integers(0, max_obstacles))):
        around = draw(st.sampled_from(anchors)) if draw(st.booleans()) else None
        obstacles.append(draw(obstacle_recipe(ids.new(), profile=profile, lim=lim, around=around)))
    pps = [draw(planning_problem_recipe(ids.new(), profile, lim)) for _ in range(draw(st.integers(0, max_pps)))]
    meta = {"author": draw(st.one_of(st.none(), st.sampled_from(["A. Author", "x", "Jane Doe, John Doe"]))),
            "affiliation": draw(st.one_of(st.none(), st.sampled_from(["TUM", "Some University"]))),
            "source": draw(st.one_of(st.none(), st.sampled_from(["synthetic", "NGSIM"]))),
            "tags": draw(st.one_of(st.none(), st.lists(st.sampled_from(TAGS), max_size=3, unique=True)))}
    return {"dt": draw(st.sampled_from([0.1, 0.04, 0.2, 1.0, 0.05])),
            "scenario_id": draw(st.one_of(st.none(), scenario_id_recipe())), "meta": meta,
            "location": draw(location_recipe()), "lanelets": net["lanelets"], "signs": net["signs"],
            "lights": net["lights"], "intersections": net["intersections"], "obstacles": obstacles, "pps": pps}


def maybe_twin(draw, net, rate=5):
    """In one of `rate` cases a lanelet gets a twin: a second lanelet with its own id on exactly the same strip (e.g. a bus
    lane modelled on top of a driving lane) - two lanelets with bit-identical polygons."""
    if net["lanelets"] and draw(st.integers(0, rate - 1)) == 0:
        src = net["lanelets"][draw(st.integers(0, len(net["lanelets"]) - 1))]
        twin = {k: v for k, v in src.items() if k in ("left", "right", "center", "types", "lm_left", "lm_right",
                                                       "users_one", "users_bi")}
        twin.update(id=max(l["id"] for l in net["lanelets"]) + 5000, pred=[], succ=[])
        net = dict(net, lanelets=net["lanelets"] + [twin])
    return net


def shuffled(draw, items):
    """The occupancy list of a set-based prediction is a plain list: in a third of the cases it is not in ascending
    time order (nothing in the library or the formats requires that)."""
    if len(items) > 1 and draw(st.integers(0, 2)) == 0:
        return list(draw(st.permutations(items)))
    return items


def occupancies_simple():
    """Set-based prediction recipe with exact, consecutive time steps starting at 1."""
    return st.lists(gg.simple_shape(), min_size=1, max_size=4).map(
        lambda shapes: {"k": "set", "t0": 1, "occ": [{"t": 1 + i, "shape": s} for i, s in enumerate(shapes)]})
