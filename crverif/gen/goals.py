"""Goal-region / query-state recipes for C08, generated as a pure function of one Hypothesis-drawn byte string.

Why not nested composites: a case needs 100-300 random decisions; at ~40 us per Hypothesis draw plus strategy
construction that was 20 ms per case (15x the cost of the check itself).  One `st.binary` draw costs ~1 ms; every
decision below reads 4 bytes of it.  All-zero bytes select the first (simplest) alternative everywhere, so Hypothesis'
byte-wise shrinking still simplifies failing cases.  Everything here is library-free and JSON-able.
"""
import math

from hypothesis import strategies as st

from crverif.oracle import geom

TWO_PI = 2 * math.pi
STREAM_BYTES = 1400

KIN_CLASSES = ["KSState", "InitialState", "KSTState", "STState", "STDState", "ExtendedPMState", "CustomKin"]
PM_CLASSES = ["PMState", "CustomPM"]
EXTRAS = {
    "InitialState": ["acceleration", "yaw_rate", "slip_angle"],
    "KSState": ["steering_angle"],
    "KSTState": ["steering_angle", "hitch_angle"],
    "STState": ["steering_angle", "slip_angle", "yaw_rate"],
    "STDState": ["steering_angle", "slip_angle", "yaw_rate", "front_wheel_angular_speed", "rear_wheel_angular_speed"],
    "ExtendedPMState": ["acceleration"],
    "PMState": [],
    "CustomKin": ["acceleration", "yaw_rate", "jerk"],
    "CustomPM": ["acceleration", "acceleration_y"],
}


class Stream:
    """Deterministic decision source over a byte string; exhausted stream = all further decisions are the first one."""

    def __init__(self, data):
        self.data = data
        self.pos = 0
        self.exhausted = False

    def u(self):
        if self.pos + 4 > len(self.data):
            self.exhausted = True
            return 0.0
        v = int.from_bytes(self.data[self.pos:self.pos + 4], "big")
        self.pos += 4
        return v / 4294967296.0

    def choice(self, seq):
        return seq[min(int(self.u() * len(seq)), len(seq) - 1)]

    def integer(self, lo, hi):
        return lo + min(int(self.u() * (hi - lo + 1)), hi - lo)

    def uniform(self, lo, hi):
        return lo + self.u() * (hi - lo)

    def chance(self, p):
        """True with probability p; the all-zero stream says False."""
        return self.u() >= 1.0 - p


# ------------------------------------------------------------------------------------------------------- values
def dim(s, lo=0.2, hi=12.0):
    k = s.choice([0, 1, 2])
    if k == 0:
        return float(s.integer(1, 8))
    if k == 1:
        return s.integer(2, 100) / 10.0
    return s.uniform(lo, hi)


def coord(s, lim):
    k = s.choice([0, 1, 2, 2, 3])
    if k == 0:
        return float(s.integer(-int(lim), int(lim)))
    if k == 1:
        return s.integer(-int(lim) * 100, int(lim) * 100) / 100.0
    if k == 2:
        return s.uniform(-lim, lim)
    return s.uniform(-1e-3, 1e-3)


def point(s, lim=100):
    return [coord(s, lim), coord(s, lim)]


ANGLE_SPECIAL = [0.0, 1e-9, -1e-9, 0.05, -0.05, math.pi / 2, -math.pi / 2, math.pi, -math.pi, 3 * math.pi / 2,
                 -3 * math.pi / 2, TWO_PI, -TWO_PI, math.pi - 1e-9, math.pi + 1e-9, -math.pi + 1e-9, math.pi / 4, 1.0,
                 2.0, -2.5]


def angle(s):
    k = s.choice([0, 1, 1, 1, 2])
    if k == 0:
        return s.choice(ANGLE_SPECIAL)
    if k == 1:
        return s.uniform(-TWO_PI, TWO_PI)
    return s.uniform(-0.06, 0.06)


# ------------------------------------------------------------------------------------------------------- shapes
def rectangle(s):
    c = point(s) if s.chance(0.7) else None
    k = s.choice([0, 1, 2, 2, 2])
    o = [None, 0.0, None][k] if k < 2 else angle(s)
    out = {"k": "rect", "l": dim(s), "w": dim(s), "c": c, "o": o}
    return _int_centre(s, out)


def _int_centre(s, shape):
    """Sometimes the centre is given as an array of ints (np.array([10, 5])): int values are admissible."""
    if shape["c"] is not None and s.chance(0.15):
        shape["c"] = [float(round(shape["c"][0])), float(round(shape["c"][1]))]
        shape["int_c"] = True
    return shape


def circle(s):
    return _int_centre(s, {"k": "circle", "r": dim(s, 0.1, 8.0), "c": point(s) if s.chance(0.7) else None})


def star_polygon(s):
    """Simple by construction: strictly increasing angles around the star centre c."""
    c = point(s)
    n = s.integer(3, 7)
    phase = s.uniform(0, TWO_PI)
    grid = s.chance(0.2)
    verts = []
    for k in range(n):
        a = phase + TWO_PI * (k + 0.15 + 0.7 * s.u()) / n
        rad = s.uniform(0.3, 6.0)
        p = [c[0] + rad * math.cos(a), c[1] + rad * math.sin(a)]
        verts.append(p)
    if grid:  # vertices on a 1/4 grid (exactly representable sums); keep only if still a proper star polygon
        snapped = [[round(p[0] * 4) / 4.0, round(p[1] * 4) / 4.0] for p in verts]
        cc = [round(c[0] * 4) / 4.0, round(c[1] * 4) / 4.0]
        if _is_star(snapped, cc) and geom.is_simple(snapped):
            verts, c = snapped, cc
    return {"k": "poly", "v": verts, "c": c}


def _is_star(v, c):
    n = len(v)
    for i in range(n):
        a, b = v[i], v[(i + 1) % n]
        if (a[0] - c[0]) * (b[1] - c[1]) - (a[1] - c[1]) * (b[0] - c[0]) <= 1e-3:
            return False
    return True


def simple_shape(s, kinds=("rect", "circle", "poly")):
    k = s.choice(list(kinds))
    return {"rect": rectangle, "circle": circle, "poly": star_polygon}[k](s)


def shape_group(s):
    n = s.integer(2, 3)
    first = simple_shape(s)
    members = [first]
    for _ in range(n - 1):
        m = simple_shape(s)
        if s.chance(0.6):  # move next to the first member so that members overlap / touch
            ref = first.get("c") or [0.0, 0.0]
            shift = [ref[0] + s.uniform(-4, 4), ref[1] + s.uniform(-4, 4)]
            if m["k"] == "poly":
                d = [shift[0] - m["c"][0], shift[1] - m["c"][1]]
                m = {"k": "poly", "v": [[p[0] + d[0], p[1] + d[1]] for p in m["v"]], "c": shift}
            else:
                if m.get("int_c"):
                    shift = [float(round(shift[0])), float(round(shift[1]))]
                m = dict(m, c=shift)
        members.append(m)
    return {"k": "group", "m": members}


def lanelet(s, start=None, heading=None, lim=60):
    """Centre polyline from a start pose, mitred left/right offsets (DESIGN 3.3: simple polygon by construction)."""
    p0 = list(start) if start is not None else point(s, lim)
    h = heading if heading is not None else angle(s)
    w = s.uniform(0.8, 3.0)
    nseg = s.integer(1, 4)
    segs = []
    for _ in range(nseg):
        ln = float(s.integer(1, 10)) if s.chance(0.3) else s.uniform(1.0, 20.0)
        segs.append((ln, s.uniform(-1, 1)))
    pts = [p0]
    heads = []
    for i, (ln, turn) in enumerate(segs):
        if i > 0:
            lmin = min(ln, segs[i - 1][0])
            h = h + turn * 2 * math.atan(0.45 * min(lmin, 1.0) / w)
        heads.append(h)
        pts.append([pts[-1][0] + ln * math.cos(h), pts[-1][1] + ln * math.sin(h)])
    left, right = [], []
    for i, p in enumerate(pts):
        if i == 0:
            a, m = heads[0], 1.0
        elif i == len(pts) - 1:
            a, m = heads[-1], 1.0
        else:
            d = heads[i] - heads[i - 1]
            a, m = heads[i - 1] + d / 2, 1.0 / math.cos(d / 2)
        nx, ny = -math.sin(a), math.cos(a)
        left.append([p[0] + w * m * nx, p[1] + w * m * ny])
        right.append([p[0] - w * m * nx, p[1] - w * m * ny])
    return {"left": left, "right": right, "center": pts}, heads[-1]


def lanelet_position(s):
    n = s.integer(1, 3)
    lls, ids = [], []
    prev = None
    for _ in range(n):
        if prev is not None and s.chance(0.6):
            ll, h = lanelet(s, start=prev[0]["center"][-1], heading=prev[1])
        else:
            ll, h = lanelet(s)
        prev = (ll, h)
        lls.append(ll)
        lid = s.integer(1, 40)
        while lid in ids:
            lid += 1
        ids.append(lid)
    return {"k": "lanelets", "ll": lls, "ids": ids}


def position(s, kinds):
    k = s.choice(list(kinds))
    if k == "group":
        return shape_group(s)
    if k == "lanelets":
        return lanelet_position(s)
    return simple_shape(s, (k,))


# ------------------------------------------------------------------------------------------------------- goal states
def time_interval(s):
    lo = s.integer(0, 30)
    ln = s.choice([0, 1, 2, 3, s.integer(0, 10)])
    if s.chance(0.1):
        return [lo + 0.5, lo + 0.5 + ln]
    return [lo, lo + ln]


def angle_interval(s, long_bias=False):
    """[a, b], -2pi <= a <= b <= 2pi, b - a < 2pi: zero length, short, pi, long, across +-pi, int ends."""
    if s.chance(0.3 if long_bias else 0.15):
        a = s.integer(-6, 6)
        b = min(6, a + s.integer(0, 6))
        return [a, b]
    start = s.choice([s.uniform(-TWO_PI, TWO_PI), s.uniform(-TWO_PI, TWO_PI), 0.0, -math.pi, math.pi, -TWO_PI, 3.0,
                      -3.3, 2.5, -math.pi / 2])
    short = [s.uniform(0.01, math.pi), s.uniform(0.01, 1.0), s.uniform(1e-9, 1e-3), 0.0]
    long_ = [s.uniform(math.pi, TWO_PI - 1e-6), s.uniform(math.pi, TWO_PI - 1e-6), math.pi, math.pi + 1e-9, 3.5, 5.0,
             6.0, 6.28]
    length = s.choice(long_ + long_ + short if long_bias else short + short + short + long_)
    end = start + length
    if end > TWO_PI:
        start, end = start - (end - TWO_PI), TWO_PI
    start = max(start, -TWO_PI)
    if not end - start < TWO_PI:
        start = end - 6.0
    return [start, end]


def velocity_interval(s, pm=False):
    if s.chance(0.3):
        lo = s.integer(0 if pm else -8, 30)
    else:
        lo = s.uniform(-2.0 if pm else -15.0, 35.0)
    ln = s.choice([s.uniform(0.0, 20.0), s.uniform(0.0, 5.0), s.integer(0, 10), 0, s.uniform(0.0, 1e-3)])
    return [lo, lo + ln]


SUBSETS = ["po", "p", "o", "v", "pv", "ov", "pov", "pov", "po", "ov", ""]


def goal_state(s, opts):
    sub = s.choice(opts.get("subsets", SUBSETS))
    gs = {"cls": None, "t": time_interval(s), "pos": None, "ori": None, "vel": None}
    if "p" in sub:
        gs["pos"] = position(s, opts["shapes"])
    if "o" in sub:
        gs["ori"] = angle_interval(s, opts.get("long_arcs", False))
    if "v" in sub:
        gs["vel"] = velocity_interval(s, opts.get("pm_velocity", False))
    classes = ["CustomState", "CustomState", "InitialState", "KSState", "STState", "ExtendedPMState"]
    if gs["ori"] is None:
        classes.append("PMState")
    gs["cls"] = s.choice(classes)
    return gs


# ------------------------------------------------------------------------------------------------------- geometry view
def lanelet_ring(ll):
    return [list(p) for p in ll["right"]] + [list(p) for p in reversed(ll["left"])]


def rect_geo(r):
    c = r.get("c") or [0.0, 0.0]
    return {"k": "poly", "v": geom.rect_vertices(r["l"], r["w"], c, r.get("o") or 0.0), "c": list(c),
            "exact": r.get("o") is None or r["o"] == 0}


def goal_geo(p):
    """Planar set of a goal position recipe.  'exact' marks polygons whose vertices the library uses verbatim (raw
    polygon / lanelet vertices, axis-parallel rectangles); 'cl' is the centre polyline of a lanelet."""
    if p["k"] == "lanelets":
        return {"k": "group", "m": [{"k": "poly", "v": lanelet_ring(ll), "exact": True, "cl": ll["center"]}
                                    for ll in p["ll"]]}
    if p["k"] == "group":
        return {"k": "group", "m": [goal_geo(m) for m in p["m"]]}
    if p["k"] == "rect":
        return rect_geo(p)
    if p["k"] == "circle":
        return {"k": "circle", "c": list(p.get("c") or [0.0, 0.0]), "r": p["r"]}
    return {"k": "poly", "v": [list(q) for q in p["v"]], "c": p.get("c"), "exact": True}


def geo_extent(g):
    if g["k"] == "circle":
        return max(abs(g["c"][0]), abs(g["c"][1])) + g["r"]
    if g["k"] == "poly":
        return max(abs(x) for p in g["v"] for x in p)
    return max(geo_extent(m) for m in g["m"])


# ------------------------------------------------------------------------------------------------------- query values
# mode: "in" | "out" | "edge" | "near" | "free"  (relative to the constraint of one goal state)
MODES_FREE = ["in", "in", "in", "out", "out", "edge", "near", "free"]
NEAR_FACTORS = [1 - 1e-6, 1 + 1e-6, 1 - 1e-4, 1 + 1e-3, 1 - 1e-11, 1 + 1e-11, 0.999, 1.001]


def factor(s, mode):
    if mode == "in":
        return s.uniform(0.0, 0.97)
    if mode == "out":
        return s.uniform(1.03, 3.0)
    return s.choice(NEAR_FACTORS)


def position_rel(s, g, mode):
    if mode == "free":
        ext = geo_extent(g)
        return [s.uniform(-ext - 5, ext + 5), s.uniform(-ext - 5, ext + 5)]
    while g["k"] == "group":
        g = s.choice(g["m"])
    if g["k"] == "circle":
        c, rad = g["c"], g["r"]
        if mode == "edge":
            dx, dy = s.choice([(1, 0), (-1, 0), (0, 1), (0, -1)])
            return [c[0] + rad * dx, c[1] + rad * dy]
        phi = s.uniform(0, TWO_PI)
        f = factor(s, mode)
        return [c[0] + rad * f * math.cos(phi), c[1] + rad * f * math.sin(phi)]
    v = geom.open_ring(g["v"])
    n = len(v)
    i = s.integer(0, n - 1)
    t = s.choice([0.0, 0.5, 1.0, s.u(), s.u()])
    a, b = v[i], v[(i + 1) % n]
    if t == 0.0:
        bp = list(a)
    elif t == 1.0:
        bp = list(b)
    else:
        bp = [a[0] + t * (b[0] - a[0]), a[1] + t * (b[1] - a[1])]
    if mode == "edge":
        return bp
    if g.get("cl") is not None:
        m = len(g["cl"])
        j = i if i < m else 2 * m - 1 - i
        ref = g["cl"][max(0, min(m - 1, j))]
    else:
        ref = g.get("c") or geom.polygon_centroid(v)
    f = factor(s, mode)
    return [ref[0] + f * (bp[0] - ref[0]), ref[1] + f * (bp[1] - ref[1])]


def angle_rel(s, ai, mode, shifts=True):
    a, b = float(ai[0]), float(ai[1])
    ln = b - a
    if mode == "free":
        return s.uniform(-TWO_PI, TWO_PI)
    if mode == "in":
        th = a + s.u() * ln
    elif mode == "edge":
        th = s.choice([ai[0], ai[1]])
    elif mode == "near":
        th = s.choice([a, b]) + s.choice([1e-6, -1e-6, 1e-3, -1e-3, 1e-12, -1e-12, 0.05, -0.05])
    else:
        th = b + s.uniform(0.02, 0.98) * (TWO_PI - ln)
    k = s.choice([0, 0, 0, 0, 1, -1, 1, -1, 2, -2]) if shifts else 0
    return th if k == 0 else th + TWO_PI * k


def number_rel(s, iv, mode, nonneg=False):
    lo, hi = iv
    flo, fhi = float(lo), float(hi)
    if mode == "free":
        x = s.uniform(0.0 if nonneg else -20.0, 40.0)
    elif mode == "in":
        x = min(max(flo + s.u() * (fhi - flo), flo), fhi)
    elif mode == "edge":
        x = s.choice([lo, hi])
    elif mode == "near":
        x = s.choice([math.nextafter(flo, -math.inf), math.nextafter(fhi, math.inf), math.nextafter(flo, math.inf),
                      math.nextafter(fhi, -math.inf), flo - 1e-9, fhi + 1e-9, flo - 1e-6, fhi + 1e-6, flo - 1e-3,
                      fhi + 1e-3])
    else:
        d = s.uniform(0.01, 10.0)
        x = s.choice([fhi + d, flo - d])
    return abs(x) if nonneg else x


def time_rel(s, iv, mode):
    lo, hi = iv
    ilo, ihi = math.ceil(lo), math.floor(hi)
    if mode in ("in", "edge") and ilo <= ihi:
        if mode == "edge":
            return s.choice([ilo, ihi])
        return s.integer(ilo, ihi)
    if mode == "free":
        return s.integer(0, 45)
    return max(0, s.choice([ihi + 1, ilo - 1, ihi + 1, ilo - 1, ilo - 4, ihi + 6]))


def goal_needs(goal):
    return {k for gs in goal for k in ("pos", "ori", "vel") if gs[k] is not None}


def query_state(s, goal, geos, cls, fixed_time=None, minimal=False, extras=(), ints=False):
    """One query state placed relative to a target goal state (per constrained attribute: in / out / edge / near)."""
    target = s.integer(0, len(goal) - 1)
    constrained = ["time"] + [k for k in ("pos", "ori", "vel") if goal[target][k] is not None]
    plan = s.choice(["all-in", "one-off", "one-off", "all-in", "one-off", "free"])
    if plan == "all-in":
        modes = {k: s.choice(["in", "in", "in", "edge"]) for k in constrained}
    elif plan == "one-off":
        modes = {k: "in" for k in constrained}
        modes[s.choice(constrained)] = s.choice(["out", "out", "near", "edge"])
    else:
        modes = {k: s.choice(MODES_FREE) for k in constrained}

    def source(key):
        if goal[target][key] is not None:
            return target, modes[key]
        others = [i for i, gs in enumerate(goal) if gs[key] is not None]
        if others:
            return s.choice(others), s.choice(MODES_FREE)
        return None, "free"

    needs = goal_needs(goal)
    pm = cls in PM_CLASSES
    q = {"cls": cls, "t": None, "pos": None, "ori": None, "vel": None, "vy": None, "extra": {}}
    q["t"] = fixed_time if fixed_time is not None else time_rel(s, goal[target]["t"], modes["time"])

    if "pos" in needs or not minimal:
        i, mode = source("pos")
        p = point(s, 50) if i is None else position_rel(s, geos[i], mode)
        q["pos"] = [int(round(p[0])), int(round(p[1]))] if ints else [p[0] + 0.0, p[1] + 0.0]

    want_o = "ori" in needs or not minimal
    want_v = "vel" in needs or not minimal
    if pm:
        if want_o or want_v:
            io, mo = source("ori")
            iv, mv = source("vel")
            if ints:
                vx, vy = s.integer(-6, 6), s.integer(-6, 6)
            else:
                if iv is None:
                    speed = s.choice([s.uniform(0.0, 30.0), s.uniform(0.0, 30.0), s.uniform(0.0, 30.0), 1.0, 0.0, 1e-3])
                else:
                    speed = float(number_rel(s, goal[iv]["vel"], mv, nonneg=True))
                axis = s.choice([None] * 6 + [0, 1, 2, 3])
                if axis is not None:
                    vx, vy = [(speed, 0.0), (0.0, speed), (-speed, 0.0), (0.0, -speed)][axis]
                else:
                    phi = s.uniform(-math.pi, math.pi) if io is None else angle_rel(s, goal[io]["ori"], mo, shifts=False)
                    vx, vy = speed * math.cos(phi), speed * math.sin(phi)
                vx, vy = vx + 0.0, vy + 0.0  # no negative zeros
            q["vel"], q["vy"] = vx, vy
    else:
        if want_o:
            io, mo = source("ori")
            if ints:
                q["ori"] = s.integer(-12, 12)
            elif io is None:
                q["ori"] = s.uniform(-TWO_PI, TWO_PI)
            else:
                q["ori"] = angle_rel(s, goal[io]["ori"], mo)
        if want_v:
            iv, mv = source("vel")
            if iv is None:
                q["vel"] = s.integer(-10, 30) if ints else s.uniform(-20.0, 40.0)
            else:
                x = number_rel(s, goal[iv]["vel"], mv)
                q["vel"] = int(round(x)) if ints and not isinstance(x, int) else x
    for name in extras:
        q["extra"][name] = s.uniform(-3.0, 3.0)
    return q


def make_case(data, opts):
    s = Stream(data)
    ngoal = s.choice(opts.get("ngoal", [1, 2, 1, 2, 3]))
    goal = [goal_state(s, opts) for _ in range(ngoal)]
    geos = [goal_geo(gs["pos"]) if gs["pos"] is not None else None for gs in goal]
    traj = bool(opts.get("traj"))
    use_np = s.chance(0.15)
    int_rate = opts.get("int_rate", 0.12)

    def config():
        cls = s.choice(opts["classes"])
        minimal = s.chance(0.25)
        pool = EXTRAS[cls]
        if minimal:
            extras = []
        elif cls.startswith("Custom"):
            extras = [name for name in pool if s.chance(0.5)]
        else:
            extras = list(pool)
        return cls, minimal, extras, s.chance(int_rate)

    states = []
    if traj:
        n = s.integer(1, 8)
        cls, minimal, extras, ints = config()
        lo, hi = goal[s.integer(0, ngoal - 1)]["t"]
        t0 = max(0, s.integer(math.ceil(lo) - n, math.floor(hi) + 1))
        for k in range(n):
            states.append(query_state(s, goal, geos, cls, fixed_time=t0 + k, minimal=minimal, extras=extras,
                                      ints=ints and s.chance(0.5)))
    else:
        n = s.integer(1, opts.get("nstates", 4))
        for k in range(n):
            cls, minimal, extras, ints = config()
            states.append(query_state(s, goal, geos, cls, minimal=minimal, extras=extras, ints=ints))
    return {"goal": goal, "states": states, "traj": traj, "np": use_np, "stream_exhausted": s.exhausted}


def case_strategy(opts):
    return st.binary(min_size=STREAM_BYTES, max_size=STREAM_BYTES).map(lambda data: make_case(data, opts))
