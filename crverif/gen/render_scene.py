"""Recipes + builders for whole scenes (lanelet network with signs / lights / intersections, obstacles of every role,
planning problems) used by the rendering property C19.  Everything a strategy returns is JSON-able; `build_scene`
turns a recipe into fresh library objects.  Ids: lanelets 1.., signs 11.., lights 21.., intersections 31..,
incomings 41.., obstacles 101.., planning problems 201.. (globally unique by construction)."""
import math
import os
import xml.etree.ElementTree as ET

import numpy as np
from hypothesis import strategies as st

import commonroad
from commonroad.common.common_lanelet import LineMarking, StopLine
from commonroad.planning.goal import GoalRegion
from commonroad.planning.planning_problem import PlanningProblem, PlanningProblemSet
from commonroad.prediction.prediction import Occupancy, SetBasedPrediction, TrajectoryPrediction
from commonroad.scenario import traffic_sign as TS
from commonroad.scenario.intersection import Intersection, IntersectionIncomingElement
from commonroad.scenario.lanelet import Lanelet, LaneletNetwork
from commonroad.scenario.obstacle import (DynamicObstacle, EnvironmentObstacle, ObstacleType, PhantomObstacle,
                                          StaticObstacle)
from commonroad.scenario.scenario import Scenario
from commonroad.scenario.state import CustomState, SignalState
from commonroad.scenario.traffic_light import (TrafficLight, TrafficLightCycle, TrafficLightCycleElement,
                                               TrafficLightDirection, TrafficLightState)
from commonroad.scenario.traffic_sign import TrafficSign, TrafficSignElement
from commonroad.scenario.trajectory import Trajectory

from crverif.gen import geometry as gg
from crverif.gen.values import angle, coord

LIM = 60.0  # scene extent: keeps every figure small and the float scale ~1e2


# ------------------------------------------------------------------------------------------ enum domains (run time)
def _xsd_enum(name):
    path = os.path.join(os.path.dirname(commonroad.__file__), "scenario_definition", "xml_definition_files",
                        "XML_commonRoad_XSD.xsd")
    ns = {"xs": "http://www.w3.org/2001/XMLSchema"}
    root = ET.parse(path).getroot()
    for stype in root.findall("xs:simpleType", ns):
        if stype.get("name") == name:
            return [e.get("value") for e in stype.iter("{http://www.w3.org/2001/XMLSchema}enumeration")]
    raise KeyError(name)


def _types(xsd_name):
    values = set(_xsd_enum(xsd_name))
    return [t.name for t in ObstacleType if t.value in values]


TYPES = {"static": _types("obstacleTypeStatic"), "dynamic": _types("obstacleTypeDynamic"),
         "env": _types("obstacleTypeEnvironment")}
LINE_MARKINGS = [m.name for m in LineMarking]
LIGHT_STATES = [s.name for s in TrafficLightState]
LIGHT_DIRECTIONS = [d.name for d in TrafficLightDirection]
# the element-id enums the TrafficSignElement constructor documents
SIGN_CLASSES = ["TrafficSignIDZamunda", "TrafficSignIDGermany", "TrafficSignIDUsa", "TrafficSignIDSpain",
                "TrafficSignIDChina", "TrafficSignIDRussia", "TrafficSignIDAustralia"]
SIGN_IDS = [[c, m.name] for c in SIGN_CLASSES for m in getattr(TS, c)]
SPEED_SIGN_IDS = [s for s in SIGN_IDS if "SPEED" in s[1]]
SIGNAL_FIELDS = ["horn", "indicator_left", "indicator_right", "braking_lights", "hazard_warning_lights",
                 "flashing_blue_lights"]
TRAJ_STATE_CLASSES = ["KSState", "STState", "ExtendedPMState", "InitialState"]


def scene_point():
    return st.tuples(coord(LIM), coord(LIM)).map(list)


# ------------------------------------------------------------------------------------------ lanelets
def _neighbour(prev, same_dir):
    """Left neighbour sharing prev's left boundary exactly (opposite direction: polylines reversed)."""
    def off(k):
        return [[l[0] + k * (l[0] - c[0]), l[1] + k * (l[1] - c[1])] for l, c in zip(prev["left"], prev["center"])]
    inner, mid, outer = [list(p) for p in prev["left"]], off(1.0), off(2.0)
    if same_dir:
        return {"right": inner, "center": mid, "left": outer, "w": prev["w"], "heads": list(prev["heads"])}
    return {"left": inner[::-1], "center": mid[::-1], "right": outer[::-1], "w": prev["w"],
            "heads": [h + math.pi for h in prev["heads"][::-1]]}


def _neighbour_ok(prev):
    """The outer boundary of a left neighbour (offset 3w from prev's centre) must still run forwards."""
    outer = [[l[0] + 2 * (l[0] - c[0]), l[1] + 2 * (l[1] - c[1])] for l, c in zip(prev["left"], prev["center"])]
    for a, b, c, d in zip(outer, outer[1:], prev["left"], prev["left"][1:]):
        if (b[0] - a[0]) * (d[0] - c[0]) + (b[1] - a[1]) * (d[1] - c[1]) <= 0 or math.hypot(b[0] - a[0],
                                                                                             b[1] - a[1]) < 1e-3:
            return False
    return True


@st.composite
def wedge(draw):
    """Straight lanelet whose one boundary is (much) shorter than the other (merge / fan geometry): a trapezoid."""
    p0, h, w = draw(scene_point()), draw(angle()), draw(st.floats(0.8, 3.0))
    ln = draw(st.one_of(st.floats(0.3, 3.0), st.floats(3.0, 15.0)))
    f = draw(st.sampled_from([0.01, 0.03, 0.1, 0.3, 0.6]))
    d, nrm = [math.cos(h), math.sin(h)], [-math.sin(h), math.cos(h)]
    la, lb = (f * ln, ln) if draw(st.booleans()) else (ln, f * ln)
    left = [[p0[0] + w * nrm[0], p0[1] + w * nrm[1]]]
    left.append([left[0][0] + la * d[0], left[0][1] + la * d[1]])
    right = [[p0[0] - w * nrm[0], p0[1] - w * nrm[1]]]
    right.append([right[0][0] + lb * d[0], right[0][1] + lb * d[1]])
    center = [[0.5 * (a[0] + b[0]), 0.5 * (a[1] + b[1])] for a, b in zip(left, right)]
    return {"left": left, "right": right, "center": center, "w": w, "heads": [h], "wedge": True}


@st.composite
def lanelets(draw, nmax=5, short=False):
    n = draw(st.integers(1, nmax))
    seg = (0.05, 1.5) if short else (1.0, 15.0)
    out = []
    for i in range(n):
        mode = draw(st.sampled_from(["free", "chain", "adj-same", "adj-opp", "wedge"] if i > 0 else
                                    ["free", "free", "free", "wedge"]))
        prev = out[-1] if out else None
        if prev is not None and prev.get("wedge") and mode != "wedge":
            mode = "free"
        if mode in ("adj-same", "adj-opp") and (prev["adj_left"] is not None or not _neighbour_ok(prev)):
            mode = "chain"
        if mode == "free":
            g = draw(gg.lanelet_polylines(2, 5, seg[0], seg[1], lim=LIM))
        elif mode == "wedge":
            g = draw(wedge())
        elif mode == "chain":
            g = draw(gg.lanelet_polylines(2, 5, seg[0], seg[1], w_min=prev["w"], w_max=prev["w"],
                                          start=prev["center"][-1], heading=prev["heads"][-1]))
        else:
            g = _neighbour(prev, mode == "adj-same")
        la = {"id": i + 1, "left": g["left"], "right": g["right"], "center": g["center"], "w": g["w"],
              "heads": g["heads"], "pred": [], "succ": [], "adj_left": None, "adj_left_same": None,
              "adj_right": None, "adj_right_same": None,
              "lm_left": draw(st.sampled_from(LINE_MARKINGS)), "lm_right": draw(st.sampled_from(LINE_MARKINGS)),
              "stop_line": None, "wedge": bool(g.get("wedge"))}
        if la["wedge"] and draw(st.booleans()):  # dashes on the short side
            la["lm_left"] = la["lm_right"] = draw(st.sampled_from(["DASHED", "BROAD_DASHED"]))
        if mode == "chain":
            la["pred"].append(prev["id"])
            prev["succ"].append(la["id"])
        elif mode == "adj-same":
            prev["adj_left"], prev["adj_left_same"] = la["id"], True
            la["adj_right"], la["adj_right_same"] = prev["id"], True
        elif mode == "adj-opp":
            prev["adj_left"], prev["adj_left_same"] = la["id"], False
            la["adj_left"], la["adj_left_same"] = prev["id"], False
        if draw(st.integers(0, 3)) == 0:
            kind = draw(st.sampled_from(["end", "inset"]))
            a, b = la["left"][-1], la["right"][-1]
            if kind == "inset":
                a = [a[0] + 0.1 * (b[0] - a[0]), a[1] + 0.1 * (b[1] - a[1])]
            la["stop_line"] = {"start": list(a), "end": list(b), "lm": draw(st.sampled_from(LINE_MARKINGS))}
        out.append(la)
    for la in out:
        del la["heads"], la["w"], la["wedge"]
    return out


def _np(v):
    return np.array(v, dtype=float)


def build_lanelet(r, signs=(), lights=()):
    sl = None
    if r.get("stop_line"):
        s = r["stop_line"]
        sl = StopLine(_np(s["start"]), _np(s["end"]), LineMarking[s["lm"]])
    return Lanelet(_np(r["left"]), _np(r["center"]), _np(r["right"]), r["id"],
                   predecessor=list(r["pred"]), successor=list(r["succ"]),
                   adjacent_left=r["adj_left"], adjacent_left_same_direction=r["adj_left_same"],
                   adjacent_right=r["adj_right"], adjacent_right_same_direction=r["adj_right_same"],
                   line_marking_left_vertices=LineMarking[r["lm_left"]],
                   line_marking_right_vertices=LineMarking[r["lm_right"]], stop_line=sl)


# ------------------------------------------------------------------------------------------ signs, lights, intersections
def _near(lls):
    """A point next to some lanelet vertex (signs and lights stand at the road side)."""
    def pick(t):
        i, j, dx, dy = t
        la = lls[i % len(lls)]
        p = la["right"][j % len(la["right"])]
        return [p[0] + dx, p[1] + dy]
    return st.tuples(st.integers(0, 50), st.integers(0, 50), st.floats(-2, 2), st.floats(-2, 2)).map(pick)


def _subset(ids, min_size=1):
    return st.lists(st.sampled_from(ids), min_size=min_size, max_size=len(ids), unique=True).map(sorted)


@st.composite
def sign_element(draw):
    cls, name = draw(st.one_of(st.sampled_from(SIGN_IDS), st.sampled_from(SPEED_SIGN_IDS)))
    if "SPEED" in name:  # a speed sign carries its speed (m/s) as the additional value
        vals = [draw(st.sampled_from(["13.89", "8.33", "27.78", "30", "5.5", "130"]))]
    else:
        vals = draw(st.lists(st.sampled_from(["10", "3.5", "Munich", "800 m", "7-19 h"]), max_size=2))
    return {"cls": cls, "name": name, "values": vals}


@st.composite
def signs(draw, lls, nmax=2):
    ids = [la["id"] for la in lls]
    out = []
    for k in range(draw(st.integers(0, nmax))):
        out.append({"id": 11 + k, "elements": draw(st.lists(sign_element(), min_size=1, max_size=2)),
                    "pos": draw(st.one_of(_near(lls), _near(lls), st.none())),
                    "virtual": draw(st.sampled_from([False, False, True])), "lanelets": draw(_subset(ids)),
                    "first": draw(st.booleans())})
    if len(out) == 2 and out[0]["pos"] and out[1]["pos"] and draw(st.integers(0, 3)) == 0:
        out[1]["pos"] = list(out[0]["pos"])  # two signs on one pole
    return out


@st.composite
def lights(draw, lls, nmax=2):
    ids = [la["id"] for la in lls]
    out = []
    for k in range(draw(st.integers(0, nmax))):
        cyc = draw(st.lists(st.tuples(st.sampled_from(LIGHT_STATES), st.integers(1, 6)).map(list), min_size=1,
                            max_size=4))
        out.append({"id": 21 + k, "pos": draw(st.one_of(_near(lls), _near(lls), st.none())), "cycle": cyc,
                    "offset": draw(st.integers(0, 5)), "active": draw(st.sampled_from([True, True, False])),
                    "direction": draw(st.sampled_from(LIGHT_DIRECTIONS)), "lanelets": draw(_subset(ids))})
    return out


@st.composite
def intersections(draw, lls):
    ids = [la["id"] for la in lls]
    if len(ids) < 2 or draw(st.sampled_from([True, True, True, False])) is False:
        return []
    n_inc = draw(st.integers(1, min(2, len(ids))))
    perm = draw(st.permutations(ids))
    incs = []
    for k in range(n_inc):
        mine = [perm[k]] + ([perm[n_inc + k]] if n_inc + k < len(perm) and draw(st.booleans()) else [])
        others = [i for i in ids if i not in mine]
        sub = st.lists(st.sampled_from(others), max_size=2, unique=True).map(sorted) if others else st.just([])
        incs.append({"id": 41 + k, "lanelets": sorted(mine), "right": draw(sub), "straight": draw(sub),
                     "left": draw(sub), "left_of": None})
    if n_inc == 2 and draw(st.booleans()):
        incs[0]["left_of"] = incs[1]["id"]
    crossings = draw(st.one_of(st.none(), st.lists(st.sampled_from(ids), max_size=2, unique=True).map(sorted)))
    return [{"id": 31, "incomings": incs, "crossings": crossings}]


def build_network(r):
    net = LaneletNetwork.create_from_lanelet_list([build_lanelet(la) for la in r["lanelets"]], cleanup_ids=False)
    for s in r.get("signs", []):
        els = [TrafficSignElement(getattr(TS, e["cls"])[e["name"]], list(e["values"])) for e in s["elements"]]
        pos = _np(s["pos"]) if s["pos"] is not None else None
        first = set(s["lanelets"][:1]) if s.get("first") else set()
        net.add_traffic_sign(TrafficSign(s["id"], els, first, pos, s["virtual"]), set(s["lanelets"]))
    for li in r.get("lights", []):
        cyc = TrafficLightCycle([TrafficLightCycleElement(TrafficLightState[c[0]], c[1]) for c in li["cycle"]],
                                time_offset=li["offset"], active=li["active"])
        pos = _np(li["pos"]) if li["pos"] is not None else None
        net.add_traffic_light(TrafficLight(li["id"], pos, cyc, active=li["active"],
                                           direction=TrafficLightDirection[li["direction"]]), set(li["lanelets"]))
    for it in r.get("intersections", []):
        incs = [IntersectionIncomingElement(i["id"], set(i["lanelets"]), set(i["right"]), set(i["straight"]),
                                            set(i["left"]), i["left_of"]) for i in it["incomings"]]
        net.add_intersection(Intersection(it["id"], incs, set(it["crossings"]) if it["crossings"] is not None
                                          else None))
    return net


# ------------------------------------------------------------------------------------------ obstacles
def obstacle_shape(groups=True):
    """Obstacle-shape convention: rectangle / circle centred at the origin, polygon with centroid at the origin,
    groups of such members."""
    parts = [gg.rectangle(True), gg.circle(True), gg.polygon(True)]
    if groups:
        parts.append(gg.shape_group(True))
    return st.one_of(*parts)


def _moved(shape, p):
    """A shape recipe translated by p (used for free-standing regions: occupancies, goal areas, uncertain positions)."""
    k = shape["k"]
    if k in ("rect", "circle"):
        c = shape.get("c") or [0.0, 0.0]
        return dict(shape, c=[c[0] + p[0], c[1] + p[1]])
    if k == "poly":
        return {"k": "poly", "v": [[q[0] + p[0], q[1] + p[1]] for q in shape["v"]],
                "c": [shape["c"][0] + p[0], shape["c"][1] + p[1]] if shape.get("c") else None}
    return {"k": "group", "m": [_moved(m, p) for m in shape["m"]]}


def region(groups=True):
    """A region somewhere in the scene: centred shape moved to a scene point (rectangle orientation free)."""
    return st.tuples(obstacle_shape(groups), scene_point()).map(lambda t: _moved(t[0], t[1]))


@st.composite
def initial_state(draw, t0, uncertain=False):
    a = {"position": draw(scene_point()), "orientation": draw(angle()), "velocity": draw(st.floats(0, 30)),
         "acceleration": draw(st.floats(-5, 5)), "yaw_rate": draw(st.floats(-1, 1)),
         "slip_angle": draw(st.floats(-0.5, 0.5))}
    if uncertain:
        which = draw(st.lists(st.sampled_from(["position", "orientation", "velocity"]), min_size=1, max_size=3,
                              unique=True))
        if "position" in which:
            a["position"] = {"shape": draw(region(groups=False))}
        if "orientation" in which:
            a["orientation"] = draw(gg.angle_interval_value(1.5))
        if "velocity" in which:
            a["velocity"] = draw(gg.interval_value(0, 20))
    return {"cls": "InitialState", "t": t0, "a": a}


@st.composite
def traj_state(draw, cls, t, uncertain=False):
    s = draw(gg.exact_state(cls, t, pos=draw(scene_point())))
    if uncertain and draw(st.booleans()):
        s["a"]["position"] = {"shape": draw(region(groups=False))}
    if uncertain and draw(st.integers(0, 3)) == 0:
        s["a"]["orientation"] = draw(gg.angle_interval_value(1.5))
    return s


@st.composite
def signal(draw, t):
    names = draw(st.lists(st.sampled_from(SIGNAL_FIELDS), min_size=0, max_size=6, unique=True))
    return {"t": t, "a": {n: draw(st.booleans()) for n in sorted(names)}}


@st.composite
def occupancy_list(draw, first, n, intervals=False):
    out = []
    t = first
    for _ in range(n):
        if intervals and draw(st.integers(0, 3)) == 0:
            ln = draw(st.integers(0, 2))
            out.append({"t": {"iv": [t, t + ln]}, "shape": draw(region())})
            t += ln + 1
        else:
            out.append({"t": t, "shape": draw(region())})
            t += 1
    if len(out) > 1 and draw(st.integers(0, 2)) == 0:
        out = list(draw(st.permutations(out)))     # the list need not be in ascending time order
    return out


@st.composite
def obstacle(draw, oid, exact_only=False, roles=None):
    role = draw(st.sampled_from(roles or ["static", "dyn-traj", "dyn-traj", "dyn-set", "dyn-set", "dyn-none",
                                          "phantom", "env"]))
    t0 = draw(st.sampled_from([0, 0, 0, 1, 2, 3, 5, 8]))
    n = draw(st.integers(1, 6))
    if role == "env":
        return {"role": role, "id": oid, "type": draw(st.sampled_from(TYPES["env"])), "shape": draw(region())}
    if role == "phantom":
        pred = None
        if draw(st.integers(0, 5)) > 0:
            pred = {"t0": t0, "occ": draw(occupancy_list(t0, n, intervals=not exact_only))}
        return {"role": role, "id": oid, "pred": pred}
    uncertain = (not exact_only) and draw(st.integers(0, 3)) == 0
    o = {"role": role, "id": oid, "shape": draw(obstacle_shape(groups=not uncertain)),
         "state": draw(initial_state(0 if role == "static" and draw(st.booleans()) else t0, uncertain)),
         "init_signal": None, "signals": None}
    t0 = o["state"]["t"]
    if draw(st.booleans()):
        o["init_signal"] = draw(signal(t0))
    if role == "static":
        o["type"] = draw(st.sampled_from(TYPES["static"]))
        return o
    o["type"] = draw(st.sampled_from(TYPES["dynamic"]))
    if draw(st.booleans()):
        o["signals"] = [draw(signal(t0 + 1 + k)) for k in range(draw(st.integers(0, n)))]
    if role == "dyn-traj":
        cls = draw(st.sampled_from(TRAJ_STATE_CLASSES))
        o["pred"] = {"k": "traj", "states": [draw(traj_state(cls, t0 + 1 + k, uncertain)) for k in range(n)]}
    elif role == "dyn-set":
        o["pred"] = {"k": "set", "occ": draw(occupancy_list(t0 + 1, n, intervals=not exact_only))}
    else:
        o["pred"] = None
    return o


def build_signal(r):
    return SignalState(time_step=r["t"], **r["a"])


def build_occupancies(occ):
    return [Occupancy(gg.decode(o["t"]) if isinstance(o["t"], dict) else o["t"], gg.build_shape(o["shape"]))
            for o in occ]


def build_obstacle(r):
    role = r["role"]
    if role == "env":
        return EnvironmentObstacle(r["id"], ObstacleType[r["type"]], gg.build_shape(r["shape"]))
    if role == "phantom":
        pred = None
        if r["pred"] is not None:
            pred = SetBasedPrediction(r["pred"]["t0"], build_occupancies(r["pred"]["occ"]))
        return PhantomObstacle(r["id"], pred)
    shape = gg.build_shape(r["shape"])
    init = gg.build_state(r["state"])
    sig = build_signal(r["init_signal"]) if r.get("init_signal") else None
    if role == "static":
        return StaticObstacle(r["id"], ObstacleType[r["type"]], shape, init, initial_signal_state=sig)
    series = [build_signal(s) for s in r["signals"]] if r.get("signals") is not None else None
    pred = None
    if r["pred"] is not None and r["pred"]["k"] == "traj":
        states = [gg.build_state(s) for s in r["pred"]["states"]]
        pred = TrajectoryPrediction(Trajectory(states[0].time_step, states), shape)
    elif r["pred"] is not None:
        occ = r["pred"]["occ"]
        first = min(o["t"] if not isinstance(o["t"], dict) else o["t"]["iv"][0] for o in occ)
        pred = SetBasedPrediction(first, build_occupancies(occ))
    return DynamicObstacle(r["id"], ObstacleType[r["type"]], shape, init, pred, initial_signal_state=sig,
                           signal_series=series)


# ------------------------------------------------------------------------------------------ planning problems
@st.composite
def goal_state(draw):
    a, b = draw(st.integers(0, 30)), draw(st.integers(0, 20))
    g = {"t": {"iv": [a, a + b]}, "a": {}}
    kind = draw(st.sampled_from(["none", "shape", "shape", "group"]))
    if kind == "shape":
        g["a"]["position"] = {"shape": draw(region(groups=False))}
    elif kind == "group":
        g["a"]["position"] = {"shape": {"k": "group", "m": draw(st.lists(region(groups=False), min_size=1,
                                                                          max_size=3))}}
    if draw(st.booleans()):
        g["a"]["orientation"] = draw(gg.angle_interval_value(2.0))
    if draw(st.booleans()):
        g["a"]["velocity"] = draw(gg.interval_value(0, 30))
    return g


@st.composite
def planning_problems(draw, nmax=2):
    out = []
    for k in range(draw(st.integers(0, nmax))):
        out.append({"id": 201 + k, "init": draw(initial_state(0)),
                    "goals": draw(st.lists(goal_state(), min_size=1, max_size=2))})
    return out


def build_planning_problem(r):
    goals = [CustomState(time_step=gg.decode(g["t"]), **{k: gg.decode(v) for k, v in g["a"].items()})
             for g in r["goals"]]
    return PlanningProblem(r["id"], gg.build_state(r["init"]), GoalRegion(goals))


# ------------------------------------------------------------------------------------------ whole scene
@st.composite
def scene(draw, exact_only=False, max_lanelets=5, max_obstacles=5, roles=None, map_extras=True, short=False,
          min_obstacles=0, pps=True):
    lls = draw(lanelets(max_lanelets, short=short))
    r = {"lanelets": lls, "signs": [], "lights": [], "intersections": [], "obstacles": [], "pps": []}
    if map_extras:
        r["signs"] = draw(signs(lls))
        r["lights"] = draw(lights(lls))
        r["intersections"] = draw(intersections(lls))
    n = draw(st.integers(min_obstacles, max_obstacles))
    r["obstacles"] = [draw(obstacle(101 + k, exact_only, roles)) for k in range(n)]
    if pps:
        r["pps"] = draw(planning_problems())
    return r


def build_scene(r):
    """-> (Scenario, PlanningProblemSet), fresh objects."""
    sc = Scenario(0.1)
    sc.add_objects(build_network(r))
    for o in r["obstacles"]:
        sc.add_objects(build_obstacle(o))
    pps = PlanningProblemSet([build_planning_problem(p) for p in r["pps"]])
    return sc, pps
