"""Schema-expressible sub-domains for the file routes, computed at run time from the shipped XSD / *_pb2 descriptors
(never hand-copied lists), and the composite strategy for file-expressible scenarios (C01, C02, C03, C15, C18)."""
import functools
import os

from hypothesis import strategies as st
from lxml import etree

import commonroad
from commonroad.common.common_lanelet import LaneletType, LineMarking, RoadUser
from commonroad.scenario.obstacle import ObstacleType
from commonroad.scenario.scenario import Tag, TimeOfDay, Underground, Weather
from commonroad.scenario.traffic_light import TrafficLightDirection, TrafficLightState
from commonroad.scenario.traffic_sign import SupportedTrafficSignCountry, TrafficSignIDCountries, TrafficSignIDZamunda

from crverif.gen import geometry as gg
from crverif.gen import scenario as gs
from crverif.gen.solutions import ALNUM
from crverif.gen.values import TWO_PI, angle, coord, point

XSD_PATH = os.path.join(os.path.dirname(commonroad.__file__), "scenario_definition", "xml_definition_files",
                        "XML_commonRoad_XSD.xsd")
NS = {"xs": "http://www.w3.org/2001/XMLSchema"}


@functools.lru_cache(None)
def xsd_tree():
    return etree.parse(XSD_PATH)


@functools.lru_cache(None)
def xsd_enum(type_name):
    t = xsd_tree().xpath("//xs:simpleType[@name='%s']//xs:enumeration/@value" % type_name, namespaces=NS)
    return frozenset(t)


@functools.lru_cache(None)
def xsd_inline_enum(element_name):
    t = xsd_tree().xpath("//xs:element[@name='%s']//xs:enumeration/@value" % element_name, namespaces=NS)
    return frozenset(t)


@functools.lru_cache(None)
def xsd_tag_names():
    return frozenset(xsd_tree().xpath("//xs:complexType[@name='tag']//xs:element/@name", namespaces=NS))


def members(enum_cls, allowed_values):
    return sorted(m.name for m in enum_cls if str(m.value) in allowed_values)


def sign_enum_for_country(country):
    if country in [c.value for c in SupportedTrafficSignCountry]:
        return country, TrafficSignIDCountries[country]
    return "ZAM", TrafficSignIDZamunda


def sign_country_key(country):
    """Key under which gs.sign_enum finds the enum (TrafficSignIDCountries has no ZAM entry)."""
    return country


@functools.lru_cache(None)
def xml_profile_base():
    return {
        "line_markings": members(LineMarking, xsd_enum("lineMarking")),
        "stop_markings": members(LineMarking, xsd_enum("lineMarking")), "free_stop_refs": True,
        "lanelet_types": members(LaneletType, xsd_enum("laneletType")),
        "road_users": members(RoadUser, xsd_enum("vehicleType")),
        "types_static": members(ObstacleType, xsd_enum("obstacleTypeStatic")),
        "types_dynamic": members(ObstacleType, xsd_enum("obstacleTypeDynamic")),
        "types_environment": members(ObstacleType, xsd_enum("obstacleTypeEnvironment")),
        "light_colours": members(TrafficLightState, xsd_enum("trafficLightColor")),
        "light_directions": members(TrafficLightDirection, xsd_inline_enum("direction")),
        "time_of_day": members(TimeOfDay, xsd_enum("timeOfDay")),
        "weather": members(Weather, xsd_enum("weather")),
        "underground": members(Underground, xsd_enum("underground")),
        "tags": sorted(m.name for m in Tag if m.value in xsd_tag_names()),
        "sign_values": xsd_enum("trafficSignID"),
    }


# state classes whose fields the 2020a <state> element can carry (position + orientation + time and optional fields)
XML_TRAJ_CLASSES = ["KSState", "STState", "MBState", "ExtendedPMState", "InitialState"]
XML_CUSTOM_EXTRA = ["velocity", "acceleration", "yaw_rate", "slip_angle", "steering_angle", "curvature",
                    "curvature_rate", "jerk", "jounce", "velocity_y", "position_z",
                    # the multi-body attributes (a custom state may carry any subset of them)
                    "roll_angle", "roll_rate", "pitch_angle", "pitch_rate", "velocity_z", "roll_angle_front",
                    "roll_rate_front", "velocity_y_front", "position_z_front", "velocity_z_front", "roll_angle_rear",
                    "roll_rate_rear", "velocity_y_rear", "position_z_rear", "velocity_z_rear",
                    "left_front_wheel_angular_speed", "right_front_wheel_angular_speed",
                    "left_rear_wheel_angular_speed", "right_rear_wheel_angular_speed", "delta_y_f", "delta_y_r"]
PB_TRAJ_CLASSES = XML_TRAJ_CLASSES + ["STDState", "PMState"]   # the pb State message has no hitch_angle (KST)
PB_CUSTOM_EXTRA = [f for f in XML_CUSTOM_EXTRA if f != "jounce"]


def uncertain_value(field):
    if field == "position":
        return st.one_of(gg.rectangle(), gg.circle(), gg.polygon()).map(lambda s: {"shape": s})
    if field in gg.ANGLE_FIELDS:
        return gg.angle_interval_value(max_len=3.0)
    return gg.interval_value(-30.0, 30.0)


@st.composite
def file_state(draw, cls, t, fields, lim, uncertain=True, pos=None):
    s = draw(gg.exact_state(cls, t, fields=fields, lim=lim, pos=pos))
    if uncertain:
        for f in list(s["a"]):
            if draw(st.integers(0, 7)) == 0:
                s["a"][f] = draw(uncertain_value(f))
    return s


@st.composite
def file_obstacle(draw, oid, prof, lim, around=None):
    role = draw(st.sampled_from(["static", "dynamic", "dynamic", "dynamic", "phantom", "environment"]))
    lo = prof["dim_lo"]
    if role == "environment":
        return {"role": role, "id": oid, "type": draw(st.sampled_from(prof["types_environment"])),
                "shape": draw(gg.any_shape(lo=lo))}
    t0 = draw(prof["t0"]) if prof.get("t0") is not None else 0
    if role == "phantom":
        return {"role": role, "id": oid, "pred": {"k": "set", "t0": t0 + 1, "occ": draw(occupancies(prof, t0 + 1))}}
    optional = ["velocity", "acceleration", "yaw_rate", "slip_angle"]
    fields = ["position", "orientation"] + [f for f in optional if draw(st.booleans())]
    pos = None
    if around is not None:
        pos = [around[0] + draw(st.floats(-3, 3)), around[1] + draw(st.floats(-3, 3))]
    shape = draw(gg.any_shape(lo=lo) if role == "static" else gg.any_shape(centered=True, lo=lo, oriented=False))
    # shape group x uncertain state is rejected by the library with an explicit ValueError: not in the domain
    group = shape["k"] == "group"
    init = draw(file_state("InitialState", t0, fields, lim, pos=pos, uncertain=not group))
    if role == "static":
        ob = {"role": role, "id": oid, "type": draw(st.sampled_from(prof["types_static"])),
              "shape": shape, "init": init}
        if prof.get("static_signals") and draw(st.booleans()):
            ob["signal0"] = draw(gs.signal_recipe(t0, prof))
        if prof.get("static_signals") and draw(st.booleans()):
            ob["signals"] = [draw(gs.signal_recipe(t0 + 1 + k, prof)) for k in range(draw(st.integers(1, 3)))]
        return ob
    ob = {"role": role, "id": oid, "type": draw(st.sampled_from(prof["types_dynamic"])),
          "shape": shape, "init": init}
    if draw(st.booleans()):
        ob["signal0"] = draw(gs.signal_recipe(t0, prof))
    if prof.get("allow_no_prediction") and draw(st.integers(0, 4)) == 0:
        return ob
    if draw(st.integers(0, 3)) > 0:
        n = draw(st.integers(1, prof.get("max_traj", 6)))
        kind = draw(st.sampled_from(prof["traj_classes"] + ["Custom"]))
        if kind == "Custom":
            extra = draw(st.lists(st.sampled_from(prof["custom_extra"]), max_size=4, unique=True))
            flds = ["position", "orientation"] + extra
            unc = draw(st.booleans()) and not group
            states = [draw(file_state("CustomState", t0 + 1 + k, flds, lim, uncertain=False)) for k in range(n)]
            if unc:
                # same kind of value for a field in all states is not required; make some fields interval-valued
                f = draw(st.sampled_from(flds))
                for s in states:
                    s["a"][f] = draw(uncertain_value(f))
        else:
            unc_field = None if group else draw(st.one_of(st.none(), st.sampled_from(gg.STATE_FIELDS[kind])))
            states = []
            for k in range(n):
                s = draw(gg.exact_state(kind, t0 + 1 + k, lim=lim))
                if unc_field is not None:
                    s["a"][unc_field] = draw(uncertain_value(unc_field))
                states.append(s)
        ob["pred"] = {"k": "traj", "traj": {"t0": t0 + 1, "states": states}}
        if prof.get("pred_shape") and draw(st.integers(0, 2)) == 0:
            # the prediction may carry its own shape (e.g. inflated by a safety margin); protobuf has a field for it
            ob["pred"]["shape"] = draw(gg.simple_shape(centered=True, lo=lo, oriented=False))
    else:
        ob["pred"] = {"k": "set", "t0": t0 + 1, "occ": draw(occupancies(prof, t0 + 1))}
    if draw(st.booleans()):
        m = draw(st.integers(1, 4))
        ob["signals"] = [draw(gs.signal_recipe(t0 + 1 + k, prof)) for k in range(m)]
    return ob


@st.composite
def occupancies(draw, prof, t_start):
    occ = []
    t = t_start
    for _ in range(draw(st.integers(1, 4))):
        if draw(st.booleans()):
            ln = draw(st.integers(0, 3))
            tt = {"iv": [t, t + ln]} if ln > 0 or t > 0 else {"iv": [t, t + 1]}
            t = tt["iv"][1] + 1
        else:
            tt = t
            t += 1
        occ.append({"t": tt, "shape": draw(gg.any_shape(lo=prof["dim_lo"]))})
    return gs.shuffled(draw, occ)      # the list need not be in ascending time order


@st.composite
def file_goal_state(draw, prof, lanelet_ids):
    a = {}
    lan = None
    kind = draw(st.sampled_from(["none", "rect", "circle", "poly", "lanelet"]))
    lo = prof["dim_lo"]
    if kind in ("rect", "circle", "poly"):
        mk = {"rect": gg.rectangle(lo=lo), "circle": gg.circle(lo=lo), "poly": gg.polygon(lo=max(lo, 0.3))}[kind]
        n = draw(st.integers(1, 3))
        shapes = [draw(mk) for _ in range(n)]
        a["position"] = {"shape": shapes[0] if n == 1 else {"k": "group", "m": shapes}}
    elif kind == "lanelet" and lanelet_ids:
        lan = draw(st.lists(st.sampled_from(lanelet_ids), min_size=1, max_size=3, unique=True))
    if draw(st.booleans()):
        a["orientation"] = draw(gg.angle_interval_value(max_len=3.0))
    if draw(st.booleans()):
        a["velocity"] = draw(gg.interval_value(0.0, 40.0))
    t0 = draw(st.integers(0, 40))
    return {"cls": "CustomState", "t": {"iv": [t0, t0 + draw(st.integers(1, 30))]}, "a": a}, lan


@st.composite
def file_planning_problem(draw, pid, prof, lim, net):
    fields = ["position", "orientation", "velocity", "yaw_rate", "slip_angle"]
    if draw(st.booleans()):
        fields.append("acceleration")
    init = draw(gg.exact_state("InitialState", draw(prof["t0"]) if prof.get("t0") is not None else 0, fields=fields,
                               lim=lim))
    lanelet_ids = [l["id"] for l in net["lanelets"]]
    states, lan = [], {}
    for i in range(draw(st.integers(1, 3))):
        s, l = draw(file_goal_state(prof, lanelet_ids))
        if l is not None:
            lan[str(i)] = l
            # the goal position of a lanelet goal is the group of the lanelets' polygons (what the readers build)
            s["a"]["position"] = {"shape": {"k": "group", "m": [
                {"k": "poly", "v": gg.lanelet_ring(next(x for x in net["lanelets"] if x["id"] == q)), "c": None}
                for q in l]}}
        states.append(s)
    return {"id": pid, "init": init, "goal": {"states": states, "lanelets": lan or None}}


def safe_text():
    return st.text(ALNUM + " .,-_()", min_size=1, max_size=20).filter(lambda s: s.strip() == s and s != "")


@st.composite
def file_location(draw, prof, fmt):
    if draw(st.integers(0, 2)) == 0:
        return None
    geo = None
    if draw(st.booleans()):
        geo = {"geo_reference": draw(st.sampled_from(["+proj=utm +zone=32 +ellps=WGS84", "EPSG:4326", "x"])),
               "x_translation": draw(coord(1e4)), "y_translation": draw(coord(1e4)),
               "z_rotation": draw(st.floats(-3, 3)), "scaling": draw(st.floats(0.1, 10))}
    env = None
    if draw(st.booleans()) and prof["time_of_day"] and prof["weather"] and prof["underground"]:
        hi = (24, 60) if prof.get("time_bounds") else (23, 59)   # Time documents hours 0-24, minutes 0-60
        bound = (lambda h: st.one_of(st.integers(0, h), st.just(h))) if prof.get("time_bounds") else (
            lambda h: st.integers(0, h))
        env = {"time": [draw(bound(hi[0])), draw(bound(hi[1]))],
               "time_of_day": draw(st.sampled_from(prof["time_of_day"])),
               "weather": draw(st.sampled_from(prof["weather"])),
               "underground": draw(st.sampled_from(prof["underground"]))}
    return {"geo_name_id": draw(st.integers(-999, 10 ** 7)), "gps_latitude": draw(st.floats(-90, 90)),
            "gps_longitude": draw(st.floats(-180, 180)), "geo": geo, "env": env}


@st.composite
def file_scenario(draw, fmt="xml", max_lanelets=5, max_obstacles=4, max_pps=2, min_pps=0, lim=200, decimals=None,
                  extra_profile=None):
    d = decimals if decimals is not None else draw(st.integers(1, 12))
    prof = dict(xml_profile_base())
    if fmt == "pb":
        from crverif.gen.pbprofile import pb_profile_base
        prof = dict(pb_profile_base())
    prof["dim_lo"] = max(0.3, 30.0 * 10.0 ** (-d))
    prof["min_types"] = 1
    prof["traj_classes"] = XML_TRAJ_CLASSES if fmt == "xml" else PB_TRAJ_CLASSES
    prof["custom_extra"] = XML_CUSTOM_EXTRA if fmt == "xml" else PB_CUSTOM_EXTRA
    if fmt == "pb":
        prof["static_signals"] = True
        prof["pred_shape"] = True
    prof["signal_fields"] = gs.SIGNAL_FIELDS
    if extra_profile:
        prof.update(extra_profile)
    ids = gs.Ids(draw(gs.id_pool(120, 900)))
    sid = draw(st.one_of(st.none(), gs.scenario_id_recipe()))
    if sid is not None and draw(st.booleans()):
        # half of the named scenarios lie in a country with its own traffic-sign catalogue (several catalogues share
        # id texts such as "R1-1", and one process reads files of many countries)
        sid = dict(sid, country_id=draw(st.sampled_from(sorted(c.value for c in SupportedTrafficSignCountry))))
    country = "ZAM" if sid is None else sid["country_id"]
    ckey, enum_cls = sign_enum_for_country(country)
    if fmt == "pb":
        from crverif.gen.pbprofile import pb_sign_names
        sign_names = pb_sign_names(enum_cls)
    else:
        sign_names = sorted(m.name for m in enum_cls if str(m.value) != "" and str(m.value) in prof["sign_values"])
    if prof.get("pb_sign_filter"):
        from crverif.gen.pbprofile import pb_sign_names
        sign_names = sorted(set(sign_names) & set(pb_sign_names(enum_cls)))
    prof["sign_names"] = sign_names
    net = draw(gs.network_recipe(ids=ids, max_lanelets=max_lanelets, lim=lim, profile=prof))
    if sign_names:
        net = draw(gs.add_signs_lights(net, ids, prof, country=ckey))
    anchors = [l["center"][len(l["center"]) // 2] for l in net["lanelets"]]
    obstacles = []
    for _ in range(draw(st.integers(0, max_obstacles))):
        around = draw(st.sampled_from(anchors)) if draw(st.booleans()) else None
        obstacles.append(draw(file_obstacle(ids.new(), prof, lim, around)))
    pps = [draw(file_planning_problem(ids.new(), prof, lim, net)) for _ in range(draw(st.integers(min_pps, max_pps)))]
    meta = {"author": draw(st.one_of(st.none(), safe_text())), "affiliation": draw(st.one_of(st.none(), safe_text())),
            "source": draw(st.one_of(st.none(), safe_text())),
            "tags": draw(st.one_of(st.none(), st.lists(st.sampled_from(prof["tags"]), max_size=3, unique=True)))}
    return {"dt": draw(st.sampled_from([0.1, 0.04, 0.2, 1.0, 0.05, 0.5])), "scenario_id": sid, "meta": meta,
            "location": draw(file_location(prof, fmt)), "lanelets": net["lanelets"], "signs": net["signs"],
            "lights": net["lights"], "intersections": net["intersections"], "obstacles": obstacles, "pps": pps,
            "decimals": d,
            "writer": {"author": draw(safe_text()), "affiliation": draw(safe_text()), "source": draw(safe_text()),
                       "tags": draw(st.lists(st.sampled_from(prof["tags"]), max_size=3, unique=True))}}
