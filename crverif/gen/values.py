"""Value strategies shared by all properties (DESIGN 3.2). Everything is JSON-able."""
import math

from hypothesis import strategies as st

TWO_PI = 2 * math.pi


def angle(ints=False):
    """Angles in [-2pi, 2pi]: uniform, dense near zero and around +-0.05, special values."""
    special = [0.0, 1e-9, -1e-9, 1e-6, -1e-6, 0.05, -0.05, 0.0500001, -0.0500001, 0.049, -0.049, 0.03, -0.02,
               math.pi / 2, -math.pi / 2, math.pi, -math.pi, 3 * math.pi / 2, -3 * math.pi / 2, TWO_PI, -TWO_PI,
               math.pi - 1e-9, math.pi + 1e-9, -math.pi + 1e-9, -math.pi - 1e-9, math.pi / 4, 1.0, 2.0, -2.5]
    parts = [st.floats(-TWO_PI, TWO_PI, allow_nan=False), st.floats(-TWO_PI, TWO_PI, allow_nan=False),
             st.floats(-0.06, 0.06, allow_nan=False), st.sampled_from(special)]
    if ints:
        parts.append(st.integers(-6, 6))
    return st.one_of(*parts)


def coord(lim=1e3):
    return st.one_of(
        st.floats(-lim, lim, allow_nan=False),
        st.integers(-int(min(lim, 1000)), int(min(lim, 1000))).map(float),
        st.integers(-10000, 10000).map(lambda k: k / 100.0),
        st.floats(-1e-3, 1e-3, allow_nan=False),
    )


def point(lim=1e3):
    return st.tuples(coord(lim), coord(lim)).map(list)


def translation(lim=1e3):
    return st.one_of(point(lim), st.just([0.0, 0.0]), st.tuples(coord(10), coord(10)).map(list))


def pos_float(lo, hi):
    return st.floats(lo, hi, allow_nan=False, allow_infinity=False)
