"""Recipes (JSON-able) and builders for well-formed lanelet networks with signs, lights, stop lines and
intersections (DESIGN 3.3, used by C10).

A network recipe is explicit data (ids already assigned):
  {"lanelets": [{"id", "left", "center", "right", "pred", "succ", "adj_left", "adj_left_same", "adj_right",
                 "adj_right_same", "types", "users_one", "users_bi", "lm_left", "lm_right", "signs", "lights",
                 "stop_line": None | {"start", "end", "marking", "sign_ref": None | [ids], "light_ref": None | [ids]},
                 "place": how the geometry was placed (bookkeeping only)}],
   "signs":  [{"id", "elements": [[enum class, member, [values]]], "first": [lanelet ids], "pos", "virtual"}],
   "lights": [{"id", "pos", "cycle": [[state, duration]], "offset", "active", "direction"}],
   "intersections": [{"id", "incomings": [{"id", "lanelets", "right", "straight", "left", "left_of"}], "crossings"}]}
Well-formedness by construction: predecessor/successor symmetric, adjacency mutual with consistent direction flags,
every sign/light referenced by >= 1 lanelet, stop lines refer only to signs/lights of their own lanelet, every incoming
element has >= 1 incoming lanelet and a lanelet is the incoming lanelet of at most one incoming element, all ids of the
network pairwise distinct (so the network can live in a Scenario), every lanelet polygon simple.
"""
import math

import numpy as np
from hypothesis import strategies as st

from commonroad.common.common_lanelet import LaneletType, LineMarking, RoadUser, StopLine
from commonroad.scenario import traffic_sign as ts_mod
from commonroad.scenario.intersection import Intersection, IntersectionIncomingElement
from commonroad.scenario.lanelet import Lanelet, LaneletNetwork
from commonroad.scenario.scenario import Scenario
from commonroad.scenario.traffic_light import (TrafficLight, TrafficLightCycle, TrafficLightCycleElement,
                                               TrafficLightDirection, TrafficLightState)
from commonroad.scenario.traffic_sign import TrafficSign, TrafficSignElement

from crverif.gen import geometry as gg
from crverif.oracle import geom

TYPE_POOL = ["urban", "highway", "crosswalk", "sidewalk", "intersection", "busLane", "bicycleLane", "unknown"]
USER_POOL = ["vehicle", "car", "truck", "bus", "bicycle", "pedestrian"]
MARKINGS = ["dashed", "solid", "broad_dashed", "no_marking", "unknown", "curb"]
SIGN_ELEMENTS = [["TrafficSignIDGermany", "MAX_SPEED", ["50"]], ["TrafficSignIDGermany", "MAX_SPEED", ["13.9"]],
                 ["TrafficSignIDGermany", "STOP", []], ["TrafficSignIDGermany", "YIELD", []],
                 ["TrafficSignIDGermany", "PRIORITY", []], ["TrafficSignIDGermany", "RIGHT_OF_WAY", []],
                 ["TrafficSignIDGermany", "TOWN_SIGN", ["Zamunda"]], ["TrafficSignIDUsa", "MAX_SPEED", ["25"]]]
LIGHT_STATES = ["red", "yellow", "redYellow", "green", "inactive"]
LIGHT_DIRECTIONS = ["right", "straight", "left", "leftStraight", "straightRight", "leftRight", "all"]
PLACEMENTS = ["island", "succ", "succ", "pred", "left", "left", "right", "right", "left-opp", "right-opp", "cross",
              "succ-of-last"]
ID_MOD = 31          # prime > number of id slots: slot -> 1 + (a*slot + b) mod 31 is injective for a in 1..30
SLOT_LANELET, SLOT_SIGN, SLOT_LIGHT, SLOT_INTER, SLOT_INC = 0, 8, 13, 17, 19     # 8 + 5 + 4 + 2 + 6 = 25 slots


# ------------------------------------------------------------------------------------------------ geometry helpers
def strip(center, heads, w):
    """Mitred left/right offsets of a centre polyline (same construction as gen.geometry.lanelet_polylines)."""
    left, right = [], []
    n = len(center)
    for i, p in enumerate(center):
        if i == 0:
            a, m = heads[0], 1.0
        elif i == n - 1:
            a, m = heads[-1], 1.0
        else:
            d = heads[i] - heads[i - 1]
            a = heads[i - 1] + d / 2
            m = 1.0 / math.cos(d / 2)
        nx, ny = -math.sin(a), math.cos(a)
        left.append([p[0] + w * m * nx, p[1] + w * m * ny])
        right.append([p[0] - w * m * nx, p[1] - w * m * ny])
    return left, right


def _geo(left, center, right, w, h0, h1):
    return {"left": left, "center": center, "right": right, "w": w, "h0": h0, "h1": h1}


def _from_polylines(ll, k=3.0):
    """lanelet_polylines bounds the turning for its own half-width; generated with k times the half-width that is
    finally used, the strip stays simple for neighbours built on either side as well."""
    w = ll["w"] / k
    left, right = strip(ll["center"], ll["heads"], w)
    return _geo(left, ll["center"], right, w, ll["heads"][0], ll["heads"][-1])


def _reverse(g):
    """The same strip driven in the opposite direction."""
    return _geo([list(p) for p in reversed(g["right"])], [list(p) for p in reversed(g["center"])],
                [list(p) for p in reversed(g["left"])], g["w"], g["h1"] + math.pi, g["h0"] + math.pi)


def _mid(a, b):
    return [[(p[0] + q[0]) / 2, (p[1] + q[1]) / 2] for p, q in zip(a, b)]


def _neighbour(g, side):
    """Strip of the same width sharing the left / right boundary of g exactly, same driving direction."""
    if side == "left":
        inner = [list(p) for p in g["left"]]
        outer = [[2 * p[0] - q[0], 2 * p[1] - q[1]] for p, q in zip(g["left"], g["right"])]
        return _geo(outer, _mid(inner, outer), inner, g["w"], g["h0"], g["h1"])
    inner = [list(p) for p in g["right"]]
    outer = [[2 * p[0] - q[0], 2 * p[1] - q[1]] for p, q in zip(g["right"], g["left"])]
    return _geo(inner, _mid(inner, outer), outer, g["w"], g["h0"], g["h1"])


def ring(g):
    return [list(p) for p in g["right"]] + [list(p) for p in reversed(g["left"])]


def _ok(g):
    r = ring(g)
    if not geom.is_simple(r):
        return False
    # no degenerate (near zero length) boundary segments
    for line in (g["left"], g["right"], g["center"]):
        if any(geom.dist(line[i], line[i + 1]) < 1e-3 for i in range(len(line) - 1)):
            return False
    return True


def _joined(x, y, tol=1e-9):
    """x ends exactly where y starts (both boundaries)."""
    return geom.dist(x["left"][-1], y["left"][0]) <= tol and geom.dist(x["right"][-1], y["right"][0]) <= tol


# ------------------------------------------------------------------------------------------------ strategies
def _island():
    return gg.lanelet_polylines(2, 6, 1.0, 15.0, w_min=2.4, w_max=7.5, lim=30).map(_from_polylines)


def _chain(g):
    """A lanelet that starts exactly where g ends (same width, same heading)."""
    w3 = 3.0 * g["w"]

    def build(ll):
        left, right = strip(ll["center"], ll["heads"], g["w"])
        return _geo(left, ll["center"], right, g["w"], ll["heads"][0], ll["heads"][-1])
    return gg.lanelet_polylines(2, 5, 1.0, 15.0, w_min=w3, w_max=w3, start=list(g["center"][-1]),
                                heading=g["h1"]).map(build)


def _subset(n, lo=0, hi=3):
    return st.lists(st.integers(0, n - 1), min_size=lo, max_size=min(hi, n), unique=True).map(sorted)


@st.composite
def network(draw, n_min=2, n_max=8, max_signs=4, max_lights=3, max_inters=2):
    a = draw(st.integers(1, ID_MOD - 1))
    b = draw(st.integers(0, ID_MOD - 1))

    def idof(slot):
        return 1 + (a * slot + b) % ID_MOD

    n = draw(st.integers(n_min, n_max))
    geo, place = [], []
    rel = [{"pred": [], "succ": [], "al": None, "als": None, "ar": None, "ars": None} for _ in range(n)]

    def link(x, y):
        if y not in rel[x]["succ"]:
            rel[x]["succ"].append(y)
        if x not in rel[y]["pred"]:
            rel[y]["pred"].append(x)

    for i in range(n):
        kind, k, g = "island", None, None
        if i > 0:
            kind = draw(st.sampled_from(PLACEMENTS))
            k = i - 1 if kind == "succ-of-last" else draw(st.integers(0, i - 1))
            if kind == "succ-of-last":
                kind = "succ"
        if kind == "succ":
            g = draw(_chain(geo[k]))
        elif kind == "pred":
            g = _reverse(draw(_chain(_reverse(geo[k]))))
        elif kind in ("left", "left-opp") and rel[k]["al"] is None:
            g = _neighbour(geo[k], "left")
            if kind == "left-opp":
                g = _reverse(g)
        elif kind in ("right", "right-opp") and rel[k]["ar"] is None:
            g = _neighbour(geo[k], "right")
            if kind == "right-opp":
                g = _reverse(g)
        elif kind == "cross":
            base = geo[k]
            j = draw(st.integers(0, len(base["center"]) - 1))
            c = base["center"][j]
            ang = base["h0"] + math.pi / 2 + draw(st.floats(-0.6, 0.6))
            hl = 2 * base["w"] + draw(st.floats(1.0, 6.0))
            w = draw(st.floats(0.8, 2.0))
            u = [math.cos(ang), math.sin(ang)]
            cen = [[c[0] - hl * u[0], c[1] - hl * u[1]], [c[0] + hl * u[0], c[1] + hl * u[1]]]
            left, right = strip(cen, [ang], w)
            g = _geo(left, cen, right, w, ang, ang)
        if g is None or not _ok(g):
            kind, k = ("island" if g is None else "island-fallback"), None
            g = draw(_island().filter(_ok))
        geo.append(g)
        place.append(kind)
        if kind == "succ":
            link(k, i)
        elif kind == "pred":
            link(i, k)
        elif kind == "left":
            rel[k]["al"], rel[k]["als"], rel[i]["ar"], rel[i]["ars"] = i, True, k, True
        elif kind == "left-opp":
            rel[k]["al"], rel[k]["als"], rel[i]["al"], rel[i]["als"] = i, False, k, False
        elif kind == "right":
            rel[k]["ar"], rel[k]["ars"], rel[i]["al"], rel[i]["als"] = i, True, k, True
        elif kind == "right-opp":
            rel[k]["ar"], rel[k]["ars"], rel[i]["ar"], rel[i]["ars"] = i, False, k, False
    # lanelets whose ends meet exactly are connected (e.g. the neighbours of two chained lanelets)
    for x in range(n):
        for y in range(n):
            if x != y and _joined(geo[x], geo[y]):
                link(x, y)
    # a few purely topological links (roundabout-like cycles, lane changes across a joint)
    for x, y in draw(st.one_of(st.just([]), st.lists(st.tuples(st.integers(0, n - 1), st.integers(0, n - 1)),
                                                      max_size=2))):
        if x != y:
            link(x, y)

    lanelets = []
    for i in range(n):
        default_types = ["crosswalk"] if place[i] == "cross" else None
        types = draw(st.lists(st.sampled_from(TYPE_POOL), max_size=2, unique=True))
        if default_types and draw(st.booleans()):
            types = default_types
        lanelets.append({
            "id": idof(SLOT_LANELET + i), "left": geo[i]["left"], "center": geo[i]["center"], "right": geo[i]["right"],
            "pred": sorted(idof(SLOT_LANELET + j) for j in rel[i]["pred"]),
            "succ": sorted(idof(SLOT_LANELET + j) for j in rel[i]["succ"]),
            "adj_left": None if rel[i]["al"] is None else idof(SLOT_LANELET + rel[i]["al"]),
            "adj_left_same": rel[i]["als"],
            "adj_right": None if rel[i]["ar"] is None else idof(SLOT_LANELET + rel[i]["ar"]),
            "adj_right_same": rel[i]["ars"],
            "types": sorted(types),
            "users_one": sorted(draw(st.lists(st.sampled_from(USER_POOL), max_size=2, unique=True))),
            "users_bi": sorted(draw(st.lists(st.sampled_from(USER_POOL), max_size=1, unique=True))),
            "lm_left": draw(st.sampled_from(MARKINGS)), "lm_right": draw(st.sampled_from(MARKINGS)),
            "signs": [], "lights": [], "stop_line": None, "place": place[i]})

    signs = []
    for s in range(draw(st.integers(0, max_signs))):
        refs = draw(_subset(n, 1, 3))
        sid = idof(SLOT_SIGN + s)
        for j in refs:
            lanelets[j]["signs"].append(sid)
        anchor = geo[refs[0]]["right"][0]
        signs.append({"id": sid,
                      "elements": draw(st.lists(st.sampled_from(SIGN_ELEMENTS), min_size=1, max_size=2,
                                                unique_by=lambda e: (e[0], e[1]))),
                      "first": [lanelets[j]["id"] for j in refs[:draw(st.integers(0, 1))]],
                      "pos": [anchor[0] + draw(st.floats(-2, 2)), anchor[1] + draw(st.floats(-2, 2))],
                      "virtual": draw(st.booleans())})
    lights = []
    for t in range(draw(st.integers(0, max_lights))):
        refs = draw(_subset(n, 1, 3))
        tid = idof(SLOT_LIGHT + t)
        for j in refs:
            lanelets[j]["lights"].append(tid)
        anchor = geo[refs[0]]["right"][-1]
        lights.append({"id": tid, "pos": [anchor[0] + draw(st.floats(-2, 2)), anchor[1] + draw(st.floats(-2, 2))],
                       "cycle": draw(st.lists(st.tuples(st.sampled_from(LIGHT_STATES), st.integers(1, 20)).map(list),
                                              min_size=1, max_size=4)),
                       "offset": draw(st.integers(0, 10)), "active": draw(st.booleans()),
                       "direction": draw(st.sampled_from(LIGHT_DIRECTIONS))})
    for i, la in enumerate(lanelets):
        la["signs"].sort()
        la["lights"].sort()
        want = draw(st.integers(0, 9))
        if want < 4 or (want < 7 and (la["signs"] or la["lights"])):
            def pick(ids):
                mode = draw(st.sampled_from(["none", "all", "some", "some"]))
                if mode == "none":
                    return None
                if mode == "all":
                    return list(ids)
                return [x for x in ids if draw(st.booleans())]
            la["stop_line"] = {"start": list(geo[i]["left"][-1]), "end": list(geo[i]["right"][-1]),
                               "marking": draw(st.sampled_from(MARKINGS)),
                               "sign_ref": pick(la["signs"]), "light_ref": pick(la["lights"])}

    inters = []
    used_incoming = set()
    inc_slot = 0
    for x in range(draw(st.integers(0, max_inters))):
        incs = []
        for _ in range(draw(st.integers(1, 3))):
            if inc_slot >= 6:
                break
            inc_l = [j for j in draw(_subset(n, 1, 2)) if j not in used_incoming]
            if not inc_l:
                continue
            used_incoming.update(inc_l)
            if draw(st.booleans()):
                # successors taken from the relation graph, spread over right / straight / left
                out = sorted({s2 for j in inc_l for s2 in rel[j]["succ"]})
                rot = draw(st.integers(0, 2))
                parts = [[s2 for q, s2 in enumerate(out) if (q + rot) % 3 == m] for m in range(3)]
                if not out:
                    parts = [draw(_subset(n, 0, 1)), draw(_subset(n, 1, 2)), draw(_subset(n, 0, 1))]
            else:
                parts = [draw(_subset(n, 0, 2)), draw(_subset(n, 0, 2)), draw(_subset(n, 0, 2))]
            incs.append({"id": idof(SLOT_INC + inc_slot), "lanelets": [lanelets[j]["id"] for j in inc_l],
                         "right": [lanelets[j]["id"] for j in parts[0]],
                         "straight": [lanelets[j]["id"] for j in parts[1]],
                         "left": [lanelets[j]["id"] for j in parts[2]], "left_of": None})
            inc_slot += 1
        if not incs:
            continue
        for q, inc in enumerate(incs):
            if len(incs) > 1 and draw(st.booleans()):
                inc["left_of"] = incs[(q + 1) % len(incs)]["id"]
        inters.append({"id": idof(SLOT_INTER + x), "incomings": incs,
                       "crossings": [lanelets[j]["id"] for j in draw(_subset(n, 0, 2))]})
    return {"lanelets": lanelets, "signs": signs, "lights": lights, "intersections": inters}


def cut_shape(net):
    """A Rectangle / Circle / star-shaped Polygon recipe placed relative to the lanelet geometry of net."""
    pts = [p for la in net["lanelets"] for p in la["center"]]

    def build(t):
        kind, anchor, off, far = t
        base = [0.0, 0.0] if far else pts[anchor % len(pts)]
        c = [base[0] + off[0], base[1] + off[1]]
        if kind == "rect":
            return st.tuples(gg.dim(0.3, 40.0), gg.dim(0.3, 40.0), st.one_of(st.none(), st.floats(-3.2, 3.2))).map(
                lambda u: {"k": "rect", "l": u[0], "w": u[1], "c": c, "o": u[2]})
        if kind == "circle":
            return gg.dim(0.2, 25.0).map(lambda r: {"k": "circle", "r": r, "c": c})
        return gg.star_polygon(center=c, rmin=0.3, rmax=25.0)
    return st.tuples(st.sampled_from(["rect", "circle", "poly"]), st.integers(0, 63),
                     st.tuples(st.floats(-12, 12), st.floats(-12, 12)).map(list),
                     st.sampled_from([False, False, False, True])).flatmap(build)


# ------------------------------------------------------------------------------------------------ builders
def build_lanelet(r):
    sl = None
    if r.get("stop_line") is not None:
        s = r["stop_line"]
        sl = StopLine(np.array(s["start"], dtype=float), np.array(s["end"], dtype=float), LineMarking(s["marking"]),
                      None if s["sign_ref"] is None else set(s["sign_ref"]),
                      None if s["light_ref"] is None else set(s["light_ref"]))
    return Lanelet(np.array(r["left"], dtype=float), np.array(r["center"], dtype=float),
                   np.array(r["right"], dtype=float), r["id"], predecessor=list(r["pred"]), successor=list(r["succ"]),
                   adjacent_left=r["adj_left"], adjacent_left_same_direction=r["adj_left_same"],
                   adjacent_right=r["adj_right"], adjacent_right_same_direction=r["adj_right_same"],
                   line_marking_left_vertices=LineMarking(r["lm_left"]),
                   line_marking_right_vertices=LineMarking(r["lm_right"]), stop_line=sl,
                   lanelet_type={LaneletType(t) for t in r["types"]},
                   user_one_way={RoadUser(u) for u in r["users_one"]},
                   user_bidirectional={RoadUser(u) for u in r["users_bi"]},
                   traffic_signs=set(r["signs"]), traffic_lights=set(r["lights"]))


def build_sign(r):
    elements = [TrafficSignElement(getattr(getattr(ts_mod, e[0]), e[1]), list(e[2])) for e in r["elements"]]
    return TrafficSign(r["id"], elements, set(r["first"]), np.array(r["pos"], dtype=float), r["virtual"])


def build_light(r):
    cycle = TrafficLightCycle([TrafficLightCycleElement(TrafficLightState(s), d) for s, d in r["cycle"]],
                              time_offset=r["offset"], active=r["active"])
    return TrafficLight(r["id"], np.array(r["pos"], dtype=float), cycle, active=r["active"],
                        direction=TrafficLightDirection(r["direction"]))


def build_intersection(r):
    incs = [IntersectionIncomingElement(i["id"], set(i["lanelets"]), set(i["right"]), set(i["straight"]),
                                        set(i["left"]), i["left_of"]) for i in r["incomings"]]
    return Intersection(r["id"], incs, set(r["crossings"]))


def build_network(r):
    net = LaneletNetwork()
    for i, la in enumerate(r["lanelets"]):
        net.add_lanelet(build_lanelet(la), rtree=(i == len(r["lanelets"]) - 1))
    for s in r["signs"]:
        net.add_traffic_sign(build_sign(s), set())
    for t in r["lights"]:
        net.add_traffic_light(build_light(t), set())
    for x in r["intersections"]:
        net.add_intersection(build_intersection(x))
    return net


def build_scenario(r, by_objects=False):
    sc = Scenario(0.1)
    if not by_objects:
        sc.add_objects(build_network(r))
        return sc
    sc.add_objects([build_lanelet(la) for la in r["lanelets"]])
    for s in r["signs"]:
        sc.add_objects(build_sign(s), {la["id"] for la in r["lanelets"] if s["id"] in la["signs"]})
    for t in r["lights"]:
        sc.add_objects(build_light(t), {la["id"] for la in r["lanelets"] if t["id"] in la["lights"]})
    sc.add_objects([build_intersection(x) for x in r["intersections"]])
    return sc
