"""Structural snapshot of scenarios / planning-problem sets through public accessors, and a tolerant comparator.

snapshot(obj) -> nested dict/list of tagged leaves:
  ("r", float) real; ("i", int); ("b", bool); ("s", str) / enum names; ("n",) None; ("set", sorted list);
  points are [("r", x), ("r", y)].
compare(a, b, tol) -> list of (path, a, b) differences (two-directional: missing and extra keys are reported).
"""
import numpy as np

from commonroad.common.util import AngleInterval, Interval
from commonroad.geometry.shape import Circle, Polygon, Rectangle, Shape, ShapeGroup
from commonroad.prediction.prediction import SetBasedPrediction, TrajectoryPrediction
from commonroad.scenario.obstacle import DynamicObstacle, EnvironmentObstacle, PhantomObstacle, StaticObstacle
from commonroad.scenario.state import SignalState, State

from crverif.oracle import geom


def R(x):
    return ("r", float(x))


def num(x):
    """ints stay ints (discrete), floats are reals."""
    if isinstance(x, (bool, np.bool_)):
        return ("b", bool(x))
    if isinstance(x, (int, np.integer)):
        return ("i", int(x))
    return ("r", float(x))


def P(v):
    return {"x": R(v[0]), "y": R(v[1])}


def line(v):
    return [P(p) for p in np.asarray(v)]


def enum_name(e):
    return ("n",) if e is None else ("s", e.name)


def idset(s):
    return ("set", sorted(int(x) for x in s)) if s is not None else ("set", [])


def snap_shape(s):
    if s is None:
        return ("n",)
    if isinstance(s, Rectangle):
        return {"kind": ("s", "rect"), "length": R(s.length), "width": R(s.width), "center": P(s.center),
                "orientation": ("ang", float(s.orientation))}
    if isinstance(s, Circle):
        return {"kind": ("s", "circle"), "radius": R(s.radius), "center": P(s.center)}
    if isinstance(s, Polygon):
        return {"kind": ("s", "poly"), "ring": ("ring", [[float(p[0]), float(p[1])] for p in geom.open_ring(
            np.asarray(s.vertices).tolist())])}
    if isinstance(s, ShapeGroup):
        return {"kind": ("s", "group"), "members": [snap_shape(m) for m in s.shapes]}
    raise TypeError(type(s))


def snap_value(v):
    if v is None:
        return ("n",)
    if isinstance(v, AngleInterval):
        return {"kind": ("s", "interval"), "start": ("ang", float(v.start)), "end": ("ang", float(v.end))}
    if isinstance(v, Interval):
        return {"kind": ("s", "interval"), "start": num(v.start), "end": num(v.end)}
    if isinstance(v, Shape):
        return {"kind": ("s", "region"), "shape": snap_shape(v)}
    if isinstance(v, np.ndarray):
        return {"kind": ("s", "point"), "p": P(v)}
    return {"kind": ("s", "exact"), "v": num(v)}


def snap_state(s, with_class=True):
    if s is None:
        return ("n",)
    out = {}
    for a in s.attributes:
        v = getattr(s, a)
        if v is None:
            continue
        if a == "time_step":
            out[a] = snap_value(v) if isinstance(v, Interval) else {"kind": ("s", "exact"), "v": ("i", int(v))}
        elif a in ("orientation", "hitch_angle") and not isinstance(v, Interval):
            out[a] = {"kind": ("s", "exact"), "v": ("ang", float(v))}
        else:
            sv = snap_value(v)
            if sv.get("kind") == ("s", "exact"):
                sv = {"kind": ("s", "exact"), "v": R(v)}
            out[a] = sv
    d = {"attrs": out}
    if with_class:
        d["cls"] = ("s", type(s).__name__)
    return d


def snap_signal(s):
    if s is None:
        return ("n",)
    out = {}
    for f in SignalState.__slots__:
        if hasattr(s, f):
            v = getattr(s, f)
            if f == "time_step":
                out[f] = snap_value(v) if isinstance(v, Interval) else ("i", int(v))
            else:
                out[f] = ("n",) if v is None else ("b", bool(v))
    return out


def snap_occupancy(o):
    t = o.time_step
    return {"time": snap_value(t) if isinstance(t, Interval) else ("i", int(t)), "shape": snap_shape(o.shape)}


def snap_prediction(p):
    if p is None:
        return ("n",)
    if isinstance(p, TrajectoryPrediction):
        return {"kind": ("s", "trajectory"), "initial_time_step": ("i", int(p.trajectory.initial_time_step)),
                "states": [snap_state(s) for s in p.trajectory.state_list], "shape": snap_shape(p.shape)}
    if isinstance(p, SetBasedPrediction):
        return {"kind": ("s", "set"), "initial_time_step": ("i", int(p.initial_time_step)),
                "occupancies": [snap_occupancy(o) for o in p.occupancy_set]}
    raise TypeError(type(p))


def snap_obstacle(o):
    if isinstance(o, EnvironmentObstacle):
        return {"role": ("s", "environment"), "type": enum_name(o.obstacle_type), "shape": snap_shape(o.obstacle_shape)}
    if isinstance(o, PhantomObstacle):
        return {"role": ("s", "phantom"), "prediction": snap_prediction(o.prediction)}
    d = {"role": ("s", "static" if isinstance(o, StaticObstacle) else "dynamic"), "type": enum_name(o.obstacle_type),
         "shape": snap_shape(o.obstacle_shape), "initial_state": snap_state(o.initial_state),
         "initial_signal_state": snap_signal(o.initial_signal_state),
         "signal_series": [snap_signal(s) for s in (o.signal_series or [])]}
    if isinstance(o, DynamicObstacle):
        d["prediction"] = snap_prediction(o.prediction)
    return d


def snap_stop_line(s):
    if s is None:
        return ("n",)
    return {"start": P(s.start), "end": P(s.end), "line_marking": enum_name(s.line_marking),
            "traffic_sign_ref": idset(s.traffic_sign_ref), "traffic_light_ref": idset(s.traffic_light_ref)}


def snap_lanelet(la):
    return {"left": line(la.left_vertices), "right": line(la.right_vertices),
            "line_marking_left": enum_name(la.line_marking_left_vertices),
            "line_marking_right": enum_name(la.line_marking_right_vertices),
            "predecessor": idset(la.predecessor), "successor": idset(la.successor),
            "predecessor_count": ("i", len(la.predecessor)), "successor_count": ("i", len(la.successor)),
            "adj_left": ("n",) if la.adj_left is None else ("i", la.adj_left),
            "adj_left_same_direction": ("n",) if la.adj_left_same_direction is None else (
                "b", bool(la.adj_left_same_direction)),
            "adj_right": ("n",) if la.adj_right is None else ("i", la.adj_right),
            "adj_right_same_direction": ("n",) if la.adj_right_same_direction is None else (
                "b", bool(la.adj_right_same_direction)),
            "stop_line": snap_stop_line(la.stop_line),
            "lanelet_type": ("set", sorted(t.name for t in la.lanelet_type)),
            "user_one_way": ("set", sorted(t.name for t in la.user_one_way)),
            "user_bidirectional": ("set", sorted(t.name for t in la.user_bidirectional)),
            "traffic_signs": idset(la.traffic_signs), "traffic_lights": idset(la.traffic_lights)}


def snap_sign(s):
    return {"elements": [{"id": ("s", type(e.traffic_sign_element_id).__name__ + "." +
                                 e.traffic_sign_element_id.name),
                          "additional_values": [("s", str(v)) for v in e.additional_values]}
                         for e in s.traffic_sign_elements],
            "position": ("n",) if s.position is None else P(s.position), "virtual": ("b", bool(s.virtual)),
            "first_occurrence": idset(s.first_occurrence)}


def snap_light(t):
    c = t.traffic_light_cycle
    return {"cycle": ("n",) if c is None else [{"state": enum_name(e.state), "duration": ("i", int(e.duration))}
                                                for e in c.cycle_elements],
            "time_offset": ("n",) if c is None else ("i", int(c.time_offset)),
            "position": ("n",) if t.position is None else P(t.position), "direction": enum_name(t.direction),
            "active": ("b", bool(t.active))}


def snap_intersection(i):
    return {"incomings": {str(inc.incoming_id): {"incoming_lanelets": idset(inc.incoming_lanelets),
                                                 "successors_right": idset(inc.successors_right),
                                                 "successors_straight": idset(inc.successors_straight),
                                                 "successors_left": idset(inc.successors_left),
                                                 "left_of": ("n",) if inc.left_of is None else ("i", inc.left_of)}
                          for inc in i.incomings},
            "incoming_count": ("i", len(i.incomings)), "crossings": idset(i.crossings)}


def snap_network(n):
    return {"lanelets": {str(la.lanelet_id): snap_lanelet(la) for la in n.lanelets},
            "lanelet_count": ("i", len(n.lanelets)),
            "traffic_signs": {str(s.traffic_sign_id): snap_sign(s) for s in n.traffic_signs},
            "traffic_lights": {str(s.traffic_light_id): snap_light(s) for s in n.traffic_lights},
            "intersections": {str(s.intersection_id): snap_intersection(s) for s in n.intersections}}


def snap_location(loc):
    if loc is None:
        return ("n",)
    g, e = loc.geo_transformation, loc.environment
    return {"geo_name_id": ("i", int(loc.geo_name_id)), "gps_latitude": R(loc.gps_latitude),
            "gps_longitude": R(loc.gps_longitude),
            "geo_transformation": ("n",) if g is None else {
                "geo_reference": ("s", str(g.geo_reference)), "x_translation": R(g.x_translation),
                "y_translation": R(g.y_translation), "z_rotation": R(g.z_rotation), "scaling": R(g.scaling)},
            "environment": ("n",) if e is None else {
                "time": ("n",) if e.time is None else ("s", "%02d:%02d" % (e.time.hours, e.time.minutes)),
                "time_of_day": enum_name(e.time_of_day), "weather": enum_name(e.weather),
                "underground": enum_name(e.underground)}}


def snap_scenario(sc, header=True):
    d = {"network": snap_network(sc.lanelet_network),
         "obstacles": {str(o.obstacle_id): snap_obstacle(o) for o in sc.obstacles},
         "obstacle_count": ("i", len(sc.obstacles))}
    if header:
        d["dt"] = R(sc.dt)
        d["scenario_id"] = ("s", str(sc.scenario_id))
        d["author"] = ("n",) if sc.author is None else ("s", sc.author)
        d["affiliation"] = ("n",) if sc.affiliation is None else ("s", sc.affiliation)
        d["source"] = ("n",) if sc.source is None else ("s", sc.source)
        d["tags"] = ("set", sorted(t.name for t in sc.tags)) if sc.tags is not None else ("n",)
        d["location"] = snap_location(sc.location)
    return d


def snap_goal(g):
    lan = g.lanelets_of_goal_position
    return {"states": [snap_state(s, with_class=False) for s in g.state_list],
            "lanelets": ("n",) if not lan else {str(k): [("i", int(x)) for x in v] for k, v in lan.items() if v}}


def snap_pps(pps):
    return {str(k): {"initial_state": snap_state(p.initial_state), "goal": snap_goal(p.goal)}
            for k, p in pps.planning_problem_dict.items()}


# --------------------------------------------------------------------------------------------------- comparison
def is_leaf(x):
    return isinstance(x, tuple)


def compare(a, b, tol, path="", out=None, ang_tol=None):
    """tol: callable(path) -> absolute tolerance for reals (0 => bit-exact)."""
    out = [] if out is None else out
    if len(out) > 20:
        return out
    if is_leaf(a) or is_leaf(b):
        if not (is_leaf(a) and is_leaf(b)) or a[0] != b[0]:
            out.append((path, a, b))
            return out
        k = a[0]
        if k == "r":
            t = tol(path)
            if t == 0:
                if float(a[1]).hex() != float(b[1]).hex() and not (a[1] == 0 and b[1] == 0):
                    out.append((path, a, b))
            elif not abs(a[1] - b[1]) < t:
                out.append((path, a, b))
        elif k == "ang":
            t = tol(path)
            if t == 0:
                if float(a[1]).hex() != float(b[1]).hex() and not (a[1] == 0 and b[1] == 0):
                    out.append((path, a, b))
            elif not abs(a[1] - b[1]) < t:
                out.append((path, a, b))
        elif k == "ring":
            t = tol(path)
            from crverif.gen.geometry import same_ring
            if not same_ring(a[1], b[1], t if t > 0 else 0.0):
                out.append((path, a, b))
        elif a != b:
            out.append((path, a, b))
        return out
    if isinstance(a, dict) and isinstance(b, dict):
        for k in sorted(set(a) | set(b)):
            if k not in a:
                out.append((path + "/" + k, ("missing",), b[k]))
            elif k not in b:
                out.append((path + "/" + k, a[k], ("missing",)))
            else:
                compare(a[k], b[k], tol, path + "/" + k, out)
        return out
    if isinstance(a, list) and isinstance(b, list):
        if len(a) != len(b):
            out.append((path + "/#len", ("i", len(a)), ("i", len(b))))
            return out
        for i, (x, y) in enumerate(zip(a, b)):
            compare(x, y, tol, "%s/[%d]" % (path, i), out)
        return out
    out.append((path, a, b))
    return out


def strip_indices(path):
    out, skip = [], 0
    parts = []
    for seg in path.split("/"):
        if seg.startswith("[") or seg.isdigit():
            parts.append("*")
        else:
            parts.append(seg)
    return "/".join(parts)
