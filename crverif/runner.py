"""bin/check <ID> [--tier quick|thorough] [--replay PATH] [--facet NAME ...]

Runs every facet of one property sharded over worker processes, the replay tier, the known-finding regressions,
writes evidence/<ID>.json and prints VIOLATION / KNOWN-FINDING lines.  Exit 0 = held, 1 = violation, 2 = harness error.
"""
import argparse
import glob
import importlib
import json
import logging
import multiprocessing as mp
import os
import sys
import time
import traceback

from crverif.core import (HOME, REPO, Ctx, Discard, HarnessError, Violation, bucket_of_exception, canon, digest,
                          normalise, short)

NPROC = int(os.environ.get("VERIF_NPROC", "16"))
MAX_ROUNDS = int(os.environ.get("VERIF_MAX_ROUNDS", "4"))


class CaseFailed(Exception):
    def __init__(self, bucket):
        self.bucket = bucket
        super().__init__(bucket)


def load_module(prop):
    mod = importlib.import_module("crverif.props.%s" % prop.lower())
    import commonroad

    where = os.path.realpath(commonroad.__file__)
    if not where.startswith(REPO + os.sep):
        raise HarnessError("commonroad imported from %s, not from %s" % (where, REPO))
    return mod


def load_known(prop):
    path = os.path.join(HOME, "known_findings.json")
    if not os.path.exists(path):
        return []
    with open(path) as f:
        data = json.load(f)
    return [k for k in data.get("findings", []) if k.get("property") == prop]


def run_case(facet, recipe, ctx, excluded):
    """Evaluate one case. Returns None (held / discarded / excluded) or raises CaseFailed."""
    recipe = normalise(recipe)
    ctx.begin(recipe)
    try:
        facet.check(recipe, ctx)
        return
    except Discard:
        return
    except Violation as v:
        bucket = "V:" + v.kind
        detail = v.detail
    except HarnessError:
        raise
    except (KeyboardInterrupt, SystemExit, MemoryError):
        raise
    except BaseException as e:  # exception inside the code under test on an in-domain input
        bucket = bucket_of_exception(e)
        if bucket is None:
            raise HarnessError("exception outside the code under test in facet %s: %s\n%s" % (
                facet.name, repr(e), "".join(traceback.format_exception(type(e), e, e.__traceback__))))
        detail = "".join(traceback.format_exception(type(e), e, e.__traceback__))[-3000:]
    if bucket in excluded:
        ctx.excluded[bucket] = ctx.excluded.get(bucket, 0) + 1
        return
    ctx.last_failure = {"facet": facet.name, "bucket": bucket, "detail": detail, "recipe": recipe}
    raise CaseFailed(bucket)


def shard_main(conn, prop, facet_name, tier, shard, nshards, n_examples, seed, excluded, scale):
    out = {"facet": facet_name, "shard": shard, "status": "ok"}
    t0 = time.time()
    import warnings
    warnings.simplefilter("ignore")
    logging.disable(logging.CRITICAL)
    try:
        mod = load_module(prop)
        facet = {f.name: f for f in mod.FACETS}[facet_name]
        ctx = Ctx(prop, facet_name, tier, seed)
        excluded = set(excluded)
        if facet.enumerate is not None:
            try:
                for i, recipe in enumerate(facet.enumerate(tier)):
                    if i % nshards != shard:
                        continue
                    run_case(facet, recipe, ctx, excluded)
            except CaseFailed:
                out["failure"] = ctx.last_failure
        else:
            import hypothesis
            from hypothesis import HealthCheck, Phase, given, settings
            import hypothesis.internal.conjecture.engine as engine

            engine.MAX_SHRINKING_SECONDS = facet.max_shrink_s if tier == "quick" else 300
            strat = facet.strategy(tier)

            @hypothesis.seed(seed)
            @settings(max_examples=max(1, n_examples), database=None, deadline=None, derandomize=False,
                      report_multiple_bugs=False, phases=[Phase.generate, Phase.shrink],
                      suppress_health_check=[HealthCheck.too_slow, HealthCheck.data_too_large,
                                             HealthCheck.large_base_example],
                      verbosity=hypothesis.Verbosity.quiet)
            @given(strat)
            def test(recipe):
                run_case(facet, recipe, ctx, excluded)

            try:
                test()
            except CaseFailed:
                out["failure"] = ctx.last_failure
            except hypothesis.errors.Flaky as e:
                out["status"] = "harness-error"
                out["error"] = "Flaky: %s\nlast failure: %s" % (e, canon(ctx.last_failure)[:3000])
            except hypothesis.errors.FailedHealthCheck as e:
                out["status"] = "harness-error"
                out["error"] = "health check: %s" % e
        out.update(ctx.result())
    except HarnessError as e:
        out["status"] = "harness-error"
        out["error"] = str(e)
    except BaseException as e:
        out["status"] = "harness-error"
        out["error"] = "".join(traceback.format_exception(type(e), e, e.__traceback__))
    out["wall_s"] = time.time() - t0
    try:
        conn.send(out)
    finally:
        conn.close()


def run_tasks(tasks, nproc):
    """tasks: list of (key, args, timeout). Own scheduler so that a hung shard can be killed (=> inconclusive)."""
    ctx = mp.get_context("fork")
    pending = list(tasks)
    running = {}
    results = {}
    while pending or running:
        while pending and len(running) < nproc:
            key, args, timeout = pending.pop(0)
            parent, child = ctx.Pipe(duplex=False)
            p = ctx.Process(target=shard_main, args=(child,) + args)
            p.start()
            child.close()
            running[key] = (p, parent, time.time(), timeout)
        time.sleep(0.02)
        for key in list(running):
            p, conn, t0, timeout = running[key]
            if conn.poll():
                try:
                    results[key] = conn.recv()
                except EOFError:
                    results[key] = {"status": "harness-error", "error": "worker died without result",
                                    "facet": key[0], "shard": key[1]}
                p.join()
                del running[key]
            elif not p.is_alive():
                if conn.poll():
                    continue
                results[key] = {"status": "harness-error", "facet": key[0], "shard": key[1],
                                "error": "worker exited with code %s without result" % p.exitcode}
                del running[key]
            elif time.time() - t0 > timeout:
                p.terminate()
                p.join(5)
                if p.is_alive():
                    p.kill()
                results[key] = {"status": "inconclusive", "facet": key[0], "shard": key[1],
                                "error": "wall-clock guard of %ss hit" % timeout}
                del running[key]
    return results


REPLAY_DIR = os.environ.get("VERIF_REPLAY_DIR") or os.path.join(HOME, "replays")


def replay_files(prop):
    files = sorted(glob.glob(os.path.join(HOME, "crverif", "regress", prop, "*.json")))
    files += sorted(glob.glob(os.path.join(REPLAY_DIR, prop, "*.json")))
    return files


def replay_one(mod, prop, path):
    """Library-free re-evaluation of a saved recipe. Returns (bucket or None, detail)."""
    with open(path) as f:
        rec = json.load(f)
    facets = {f.name: f for f in mod.FACETS}
    if rec.get("facet") not in facets:
        return ("H:unknown-facet", "facet %r of %s no longer exists" % (rec.get("facet"), path))
    facet = facets[rec["facet"]]
    ctx = Ctx(prop, facet.name, "replay", 0)
    ctx.replaying = True
    try:
        run_case(facet, rec["recipe"], ctx, set())
    except CaseFailed as e:
        return (e.bucket, ctx.last_failure["detail"])
    return (None, "")


def replay_worker(conn, prop, path):
    import warnings
    warnings.simplefilter("ignore")
    logging.disable(logging.CRITICAL)
    try:
        mod = load_module(prop)
        conn.send(replay_one(mod, prop, path))
    except BaseException as e:
        conn.send(("H:harness", "".join(traceback.format_exception(type(e), e, e.__traceback__))))
    finally:
        conn.close()


def replay_isolated(prop, path, timeout=300):
    ctx = mp.get_context("fork")
    parent, child = ctx.Pipe(duplex=False)
    p = ctx.Process(target=replay_worker, args=(child, prop, path))
    p.start()
    child.close()
    if parent.poll(timeout):
        res = parent.recv()
    else:
        res = ("H:timeout", "replay did not finish in %ss" % timeout)
        p.terminate()
    p.join(5)
    return res


def write_replay(prop, failure, seed, tier):
    d = os.path.join(REPLAY_DIR, prop)
    os.makedirs(d, exist_ok=True)
    h = "%016x" % digest([failure["facet"], failure["recipe"]])
    path = os.path.join(d, "%s-%s.json" % (failure["facet"], h[:12]))
    with open(path, "w") as f:
        json.dump({"property": prop, "facet": failure["facet"], "bucket": failure["bucket"],
                   "detail": failure["detail"], "seed": seed, "tier": tier, "recipe": failure["recipe"]}, f, indent=1)
    return path


def main(argv=None):
    ap = argparse.ArgumentParser()
    ap.add_argument("prop")
    ap.add_argument("--tier", default=os.environ.get("VERIF_TIER", "quick"), choices=["quick", "thorough"])
    ap.add_argument("--replay")
    ap.add_argument("--facet", action="append")
    ap.add_argument("--scale", type=float, default=float(os.environ.get("VERIF_SCALE", "1")))
    ap.add_argument("--no-evidence", action="store_true")
    args = ap.parse_args(argv)
    prop = args.prop.upper()
    seed = int(os.environ.get("VERIF_SEED", "1") or "1")
    t0 = time.time()
    try:
        mod = load_module(prop)
    except BaseException as e:
        print("HARNESS-ERROR: cannot load property module: %s" % "".join(
            traceback.format_exception(type(e), e, e.__traceback__)))
        return 2
    facets = [f for f in mod.FACETS if not args.facet or f.name in args.facet]
    if not facets:
        print("HARNESS-ERROR: no such facet")
        return 2

    if args.replay:
        bucket, detail = replay_isolated(prop, args.replay)
        if bucket is None:
            print("REPLAY-OK property=%s replay=%s" % (prop, args.replay))
            return 0
        if bucket.startswith("H:"):
            print("HARNESS-ERROR: %s %s" % (bucket, detail))
            return 2
        print("bucket: %s\n%s" % (bucket, detail))
        print("VIOLATION property=%s replay=%s" % (prop, args.replay))
        return 1

    known = load_known(prop)
    known_buckets = {}
    for k in known:
        known_buckets.setdefault(k["facet"], set()).add(k["bucket"])
    violations = []      # (facet, bucket, path)
    harness_errors = []
    known_reported = []

    # --- known findings: re-evaluate each listed finding (it must still fail the listed way to be reported)
    for k in known:
        path = os.path.join(HOME, k["regress"])
        bucket, detail = replay_isolated(prop, path)
        if bucket == k["bucket"]:
            print("KNOWN-FINDING: property=%s %s" % (prop, k["what"]))
            known_reported.append(k["what"])
        elif bucket is None:
            print("note: listed finding no longer reproduces (%s)" % k["what"])
        elif bucket.startswith("H:"):
            harness_errors.append("known-finding regress %s: %s %s" % (path, bucket, detail))
        else:
            violations.append((k["facet"], bucket, path))

    # --- replay tier: committed regressions and earlier shrunk failures
    known_paths = {os.path.realpath(os.path.join(HOME, k["regress"])) for k in known}
    n_replayed = 0
    for path in replay_files(prop):
        if os.path.realpath(path) in known_paths:
            continue
        with open(path) as f:
            rec = json.load(f)
        if args.facet and rec.get("facet") not in args.facet:
            continue
        bucket, detail = replay_isolated(prop, path)
        n_replayed += 1
        if bucket is None:
            continue
        if bucket.startswith("H:"):
            harness_errors.append("replay %s: %s %s" % (path, bucket, detail))
        elif bucket in known_buckets.get(rec.get("facet"), ()):
            continue
        else:
            violations.append((rec.get("facet"), bucket, path))

    # --- generated facets, sharded; rounds continue past buckets already found
    agg = {f.name: {"cases": 0, "nontrivial_cases": 0, "digests": set(), "band": 0, "discards": {}, "classes": {},
                    "samples": [], "excluded": {}, "inconclusive_shards": 0, "shards": 0, "wall_s": 0.0,
                    "buckets_found": []} for f in facets}
    excluded = {f.name: set(known_buckets.get(f.name, ())) for f in facets}
    todo = list(facets)
    for rnd in range(MAX_ROUNDS):
        tasks = []
        for f in todo:
            budget = int((f.quick if args.tier == "quick" else f.thorough) * args.scale)
            nshards = f.shards_quick if args.tier == "quick" else f.shards_thorough
            if rnd > 0:
                nshards = max(1, nshards // 2)
                budget = max(1, budget // 2)
            timeout = f.timeout_quick if args.tier == "quick" else f.timeout_thorough
            for s in range(nshards):
                sseed = ((seed * 1000 + s) * 10 + rnd) * 1000 + digest(f.name) % 1000
                per = budget // nshards + (1 if s < budget % nshards else 0)
                tasks.append(((f.name, s), (prop, f.name, args.tier, s, nshards, per, sseed,
                                            sorted(excluded[f.name]), args.scale), timeout))
        results = run_tasks(tasks, NPROC)
        again = []
        for f in todo:
            new_buckets = {}
            for (fname, s), r in sorted(results.items()):
                if fname != f.name:
                    continue
                a = agg[f.name]
                a["shards"] += 1
                a["wall_s"] += r.get("wall_s", 0.0)
                if r["status"] == "inconclusive":
                    a["inconclusive_shards"] += 1
                    print("note: facet %s shard %s inconclusive: %s" % (f.name, s, r["error"]))
                    continue
                if r["status"] == "harness-error":
                    harness_errors.append("facet %s shard %s: %s" % (f.name, s, r["error"]))
                    continue
                a["cases"] += r["cases"]
                a["nontrivial_cases"] += r["nontrivial_cases"]
                a["digests"] |= r["digests"]
                a["band"] += r["band"]
                for key in ("discards", "classes", "excluded"):
                    for k2, v in r[key].items():
                        a[key][k2] = a[key].get(k2, 0) + v
                for smp in r["samples"]:
                    if len(a["samples"]) < 3:
                        a["samples"].append(smp)
                if "failure" in r and r["failure"]:
                    fl = r["failure"]
                    cur = new_buckets.get(fl["bucket"])
                    if cur is None or len(canon(fl["recipe"])) < len(canon(cur["recipe"])):
                        new_buckets[fl["bucket"]] = fl
            for bucket, fl in new_buckets.items():
                path = write_replay(prop, fl, seed, args.tier)
                violations.append((f.name, bucket, path))
                agg[f.name]["buckets_found"].append(bucket)
                excluded[f.name].add(bucket)
            if new_buckets:
                again.append(f)
        todo = again
        if not todo:
            break

    # --- evidence
    wall = time.time() - t0
    evaluations = sum(a["cases"] for a in agg.values()) + n_replayed
    distinct = sum(len(a["digests"]) for a in agg.values())
    samples = []
    facet_report = {}
    for f in facets:
        a = agg[f.name]
        for smp in a["samples"][:2]:
            samples.append({"facet": f.name, "case": smp})
        nd = sum(a["discards"].values())
        facet_report[f.name] = {
            "rule": f.rule, "cases": a["cases"], "nontrivial_cases": a["nontrivial_cases"],
            "distinct_nontrivial": len(a["digests"]), "band_cases": a["band"], "discards": a["discards"],
            "discard_rate": round(nd / a["cases"], 4) if a["cases"] else 0.0,
            "classes": dict(sorted(a["classes"].items())), "excluded_known_or_found": a["excluded"],
            "buckets_found": a["buckets_found"], "shards": a["shards"],
            "inconclusive_shards": a["inconclusive_shards"], "exhaustive": f.enumerate is not None,
            "cpu_s": round(a["wall_s"], 2)}
        if a["cases"] and nd / a["cases"] > 0.5:
            harness_errors.append("facet %s discards %.0f%% of its cases" % (f.name, 100.0 * nd / a["cases"]))
    evidence = {
        "property_id": prop, "tier": args.tier, "seed": seed, "level": "exploration",
        "coverage": {
            "evaluations": evaluations, "distinct_nontrivial": distinct,
            "rule": getattr(mod, "RULE", "") + " | per facet: " + "; ".join(
                "%s: %s" % (f.name, f.rule) for f in facets),
            "samples": samples if samples else [{"note": "no non-trivial case recorded"}],
            "exhaustive": bool(facets) and all(f.enumerate is not None for f in facets),
            "facets": facet_report, "replayed_files": n_replayed,
        },
        "assumptions": list(getattr(mod, "ASSUMPTIONS", [])),
        "wall_s": round(wall, 2),
        "violations": len(violations),
        "violation_buckets": [{"facet": f, "bucket": b, "replay": p} for f, b, p in violations],
        "known_findings_reported": known_reported,
        "harness_errors": harness_errors[:10],
        "repo": REPO,
    }
    if not args.no_evidence and not args.facet:
        os.makedirs(os.path.join(HOME, "evidence"), exist_ok=True)
        with open(os.path.join(HOME, "evidence", "%s.json" % prop), "w") as f:
            json.dump(evidence, f, indent=1, sort_keys=True, default=repr)
    for f in facets:
        r = facet_report[f.name]
        print("facet %-28s cases=%-8d nontrivial=%-8d distinct=%-8d band=%-6d discards=%-6d excluded=%s" % (
            f.name, r["cases"], r["nontrivial_cases"], r["distinct_nontrivial"], r["band_cases"],
            sum(r["discards"].values()), r["excluded_known_or_found"] or "-"))
    print("%s tier=%s seed=%d evaluations=%d distinct_nontrivial=%d wall=%.1fs" % (
        prop, args.tier, seed, evaluations, distinct, wall))
    if harness_errors:
        for h in harness_errors:
            print("HARNESS-ERROR: %s" % h)
    for fname, bucket, path in violations:
        print("violation facet=%s bucket=%s" % (fname, bucket))
        print("VIOLATION property=%s replay=%s" % (prop, path))
    if violations:
        return 1
    if harness_errors:
        return 2
    return 0


if __name__ == "__main__":
    sys.exit(main())
