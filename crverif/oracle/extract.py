"""Spatial content of library objects read through public accessors: flat list of (path, kind, value).

kinds: "pt" point [x, y]; "ring" closed vertex ring; "line" polyline; "ang" orientation; "ai" angle interval [s, e];
"dim" invariant scalar (length, width, radius, area, arc length); "vec" velocity vector of a point-mass-like state.
Used by C05 (rigid-motion oracle) and C11.
"""
import numpy as np

from commonroad.common.common_lanelet import StopLine
from commonroad.common.util import AngleInterval
from commonroad.geometry.shape import Circle, Polygon, Rectangle, Shape, ShapeGroup
from commonroad.planning.goal import GoalRegion
from commonroad.planning.planning_problem import PlanningProblem, PlanningProblemSet
from commonroad.prediction.prediction import Occupancy, SetBasedPrediction, TrajectoryPrediction
from commonroad.scenario.lanelet import Lanelet, LaneletNetwork
from commonroad.scenario.obstacle import DynamicObstacle, EnvironmentObstacle, PhantomObstacle, StaticObstacle
from commonroad.scenario.scenario import Scenario
from commonroad.scenario.state import State
from commonroad.scenario.traffic_light import TrafficLight
from commonroad.scenario.traffic_sign import TrafficSign
from commonroad.scenario.trajectory import Trajectory

from crverif.oracle import geom


def pt(v):
    return [float(v[0]), float(v[1])]


def pts(v):
    return [pt(p) for p in np.asarray(v)]


def extract(obj, path="", out=None, derived=True):
    out = [] if out is None else out
    if obj is None:
        return out
    if isinstance(obj, Rectangle):
        out.append((path + ".center", "pt", pt(obj.center)))
        out.append((path + ".orientation", "ang", float(obj.orientation)))
        out.append((path + ".length", "dim", float(obj.length)))
        out.append((path + ".width", "dim", float(obj.width)))
        if derived:
            out.append((path + ".vertices", "ring", pts(obj.vertices)))
            out.append((path + ".shapely_object", "ring", pts(obj.shapely_object.exterior.coords)))
    elif isinstance(obj, Circle):
        out.append((path + ".center", "pt", pt(obj.center)))
        out.append((path + ".radius", "dim", float(obj.radius)))
    elif isinstance(obj, Polygon):
        v = pts(obj.vertices)
        out.append((path + ".vertices", "ring", v))
        out.append((path + ".area", "dim", abs(geom.polygon_area(v))))
        if derived:
            out.append((path + ".shapely_object", "ring", pts(obj.shapely_object.exterior.coords)))
    elif isinstance(obj, ShapeGroup):
        for i, s in enumerate(obj.shapes):
            extract(s, "%s.shapes[%d]" % (path, i), out, derived)
    elif isinstance(obj, State):
        attrs = obj.attributes
        if "position" in attrs and obj.position is not None:
            if isinstance(obj.position, Shape):
                extract(obj.position, path + ".position", out, derived)
            else:
                out.append((path + ".position", "pt", pt(obj.position)))
        if "orientation" in attrs and obj.orientation is not None:
            if isinstance(obj.orientation, AngleInterval):
                out.append((path + ".orientation", "ai", [float(obj.orientation.start), float(obj.orientation.end)]))
            else:
                out.append((path + ".orientation", "ang", float(obj.orientation)))
        elif "velocity" in attrs and "velocity_y" in attrs and obj.velocity is not None \
                and obj.velocity_y is not None and not hasattr(obj.velocity, "start"):
            out.append((path + ".velocity_vector", "vec", [float(obj.velocity), float(obj.velocity_y)]))
        for a in attrs:
            if a in ("position", "orientation", "time_step", "velocity_y"):
                continue
            v = getattr(obj, a)
            if a == "velocity" and "velocity_y" in attrs and "orientation" not in attrs:
                continue
            if isinstance(v, (int, float)) and not isinstance(v, bool):
                out.append((path + "." + a, "dim", float(v)))
    elif isinstance(obj, Trajectory):
        for i, s in enumerate(obj.state_list):
            extract(s, "%s.state_list[%d]" % (path, i), out, derived)
    elif isinstance(obj, Occupancy):
        extract(obj.shape, path + ".shape", out, derived)
    elif isinstance(obj, SetBasedPrediction):
        for i, o in enumerate(obj.occupancy_set):
            extract(o, "%s.occupancy_set[%d]" % (path, i), out, derived)
    elif isinstance(obj, TrajectoryPrediction):
        extract(obj.trajectory, path + ".trajectory", out, derived)
        if derived:
            for i, o in enumerate(obj.occupancy_set):
                extract(o, "%s.occupancy_set[%d]" % (path, i), out, derived)
    elif isinstance(obj, EnvironmentObstacle):
        extract(obj.obstacle_shape, path + ".obstacle_shape", out, derived)
    elif isinstance(obj, PhantomObstacle):
        extract(obj.prediction, path + ".prediction", out, derived)
    elif isinstance(obj, (StaticObstacle, DynamicObstacle)):
        extract(obj.initial_state, path + ".initial_state", out, derived)
        if derived:
            occ = obj.occupancy_at_time(obj.initial_state.time_step)
            extract(occ, path + ".occupancy_at_initial", out, derived)
        if isinstance(obj, DynamicObstacle):
            extract(obj.prediction, path + ".prediction", out, derived)
    elif isinstance(obj, StopLine):
        out.append((path + ".start", "pt", pt(obj.start)))
        out.append((path + ".end", "pt", pt(obj.end)))
    elif isinstance(obj, Lanelet):
        out.append((path + ".left_vertices", "line", pts(obj.left_vertices)))
        out.append((path + ".right_vertices", "line", pts(obj.right_vertices)))
        out.append((path + ".center_vertices", "line", pts(obj.center_vertices)))
        extract(obj.stop_line, path + ".stop_line", out, derived)
        if derived:
            out.append((path + ".polygon", "ring", pts(obj.polygon.vertices)))
            out.append((path + ".length", "dim", float(obj.distance[-1])))
    elif isinstance(obj, (TrafficSign, TrafficLight)):
        out.append((path + ".position", "pt", pt(obj.position)))
    elif isinstance(obj, LaneletNetwork):
        for la in sorted(obj.lanelets, key=lambda x: x.lanelet_id):
            extract(la, "%s.lanelet[%d]" % (path, la.lanelet_id), out, derived)
        for s in sorted(obj.traffic_signs, key=lambda x: x.traffic_sign_id):
            extract(s, "%s.sign[%d]" % (path, s.traffic_sign_id), out, derived)
        for s in sorted(obj.traffic_lights, key=lambda x: x.traffic_light_id):
            extract(s, "%s.light[%d]" % (path, s.traffic_light_id), out, derived)
    elif isinstance(obj, GoalRegion):
        for i, s in enumerate(obj.state_list):
            extract(s, "%s.state_list[%d]" % (path, i), out, derived)
    elif isinstance(obj, PlanningProblem):
        extract(obj.initial_state, path + ".initial_state", out, derived)
        extract(obj.goal, path + ".goal", out, derived)
    elif isinstance(obj, PlanningProblemSet):
        for k in sorted(obj.planning_problem_dict):
            extract(obj.planning_problem_dict[k], "%s.pp[%d]" % (path, k), out, derived)
    elif isinstance(obj, Scenario):
        extract(obj.lanelet_network, path + ".lanelet_network", out, derived)
        for o in sorted(obj.obstacles, key=lambda x: x.obstacle_id):
            extract(o, "%s.obstacle[%d]" % (path, o.obstacle_id), out, derived)
    else:
        raise TypeError("extract: unsupported %r" % type(obj))
    return out
