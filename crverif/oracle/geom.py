"""Independent elementary planar geometry (no shapely, no commonroad): the reference side of the geometric oracles."""
import math

TWO_PI = 2 * math.pi


def rot(p, a):
    c, s = math.cos(a), math.sin(a)
    return [c * p[0] - s * p[1], s * p[0] + c * p[1]]


def rigid(p, t, a):
    """translate_rotate semantics of the library documentation: first translate by t, then rotate about the origin."""
    return rot([p[0] + t[0], p[1] + t[1]], a)


def inverse_motion(t, a):
    """(t', a') with rigid(rigid(p,t,a), t', a') == p."""
    r = rot(t, a)
    return [-r[0], -r[1]], -a


def angle_diff(a, b):
    """a - b folded into (-pi, pi]."""
    return math.remainder(a - b, TWO_PI)


def dist(p, q):
    return math.hypot(p[0] - q[0], p[1] - q[1])


def rect_vertices(length, width, center, theta):
    hl, hw = 0.5 * length, 0.5 * width
    out = []
    for x, y in ((-hl, -hw), (-hl, hw), (hl, hw), (hl, -hw)):
        r = rot([x, y], theta)
        out.append([r[0] + center[0], r[1] + center[1]])
    return out


def open_ring(v):
    v = [list(map(float, p)) for p in v]
    if len(v) > 1 and v[0][0] == v[-1][0] and v[0][1] == v[-1][1]:
        v = v[:-1]
    return v


def polygon_area(v):
    v = open_ring(v)
    s = 0.0
    for i in range(len(v)):
        x1, y1 = v[i]
        x2, y2 = v[(i + 1) % len(v)]
        s += x1 * y2 - x2 * y1
    return 0.5 * s


def polygon_centroid(v):
    v = open_ring(v)
    a = 0.0
    cx = cy = 0.0
    for i in range(len(v)):
        x1, y1 = v[i]
        x2, y2 = v[(i + 1) % len(v)]
        cr = x1 * y2 - x2 * y1
        a += cr
        cx += (x1 + x2) * cr
        cy += (y1 + y2) * cr
    if a == 0:
        n = len(v)
        return [sum(p[0] for p in v) / n, sum(p[1] for p in v) / n]
    return [cx / (3 * a), cy / (3 * a)]


def point_seg_dist(p, a, b):
    dx, dy = b[0] - a[0], b[1] - a[1]
    l2 = dx * dx + dy * dy
    if l2 == 0:
        return dist(p, a)
    t = ((p[0] - a[0]) * dx + (p[1] - a[1]) * dy) / l2
    t = max(0.0, min(1.0, t))
    return math.hypot(p[0] - (a[0] + t * dx), p[1] - (a[1] + t * dy))


def boundary_dist(p, v):
    v = open_ring(v)
    return min(point_seg_dist(p, v[i], v[(i + 1) % len(v)]) for i in range(len(v)))


def point_in_ring(p, v):
    """Even-odd ray casting on the raw vertex ring (boundary cases are decided by the caller's band)."""
    v = open_ring(v)
    x, y = p
    inside = False
    n = len(v)
    for i in range(n):
        x1, y1 = v[i]
        x2, y2 = v[(i + 1) % n]
        if (y1 > y) != (y2 > y):
            xi = x1 + (y - y1) * (x2 - x1) / (y2 - y1)
            if xi > x:
                inside = not inside
    return inside


def point_in_polygon(p, v):
    """(inside, distance to the boundary)."""
    return point_in_ring(p, v), boundary_dist(p, v)


def _orient(a, b, c):
    return (b[0] - a[0]) * (c[1] - a[1]) - (b[1] - a[1]) * (c[0] - a[0])


def _on_seg(a, b, c):
    return min(a[0], b[0]) <= c[0] <= max(a[0], b[0]) and min(a[1], b[1]) <= c[1] <= max(a[1], b[1])


def segs_intersect(p1, p2, p3, p4):
    d1, d2 = _orient(p3, p4, p1), _orient(p3, p4, p2)
    d3, d4 = _orient(p1, p2, p3), _orient(p1, p2, p4)
    if ((d1 > 0 and d2 < 0) or (d1 < 0 and d2 > 0)) and ((d3 > 0 and d4 < 0) or (d3 < 0 and d4 > 0)):
        return True
    if d1 == 0 and _on_seg(p3, p4, p1):
        return True
    if d2 == 0 and _on_seg(p3, p4, p2):
        return True
    if d3 == 0 and _on_seg(p1, p2, p3):
        return True
    if d4 == 0 and _on_seg(p1, p2, p4):
        return True
    return False


def seg_seg_dist(p1, p2, p3, p4):
    if segs_intersect(p1, p2, p3, p4):
        return 0.0
    return min(point_seg_dist(p1, p3, p4), point_seg_dist(p2, p3, p4), point_seg_dist(p3, p1, p2),
               point_seg_dist(p4, p1, p2))


def edges(v):
    v = open_ring(v)
    return [(v[i], v[(i + 1) % len(v)]) for i in range(len(v))]


def polygons_intersect(a, b):
    """Closed simple polygons a, b (vertex rings) share a point."""
    a, b = open_ring(a), open_ring(b)
    for e1 in edges(a):
        for e2 in edges(b):
            if segs_intersect(e1[0], e1[1], e2[0], e2[1]):
                return True
    return point_in_ring(a[0], b) or point_in_ring(b[0], a)


def polygon_distance(a, b):
    if polygons_intersect(a, b):
        return 0.0
    return min(seg_seg_dist(e1[0], e1[1], e2[0], e2[1]) for e1 in edges(a) for e2 in edges(b))


def disc_intersects_polygon(c, r, v):
    if point_in_ring(c, v):
        return True
    return boundary_dist(c, v) <= r


def is_simple(v):
    v = open_ring(v)
    n = len(v)
    if n < 3:
        return False
    es = edges(v)
    for i in range(n):
        if es[i][0] == es[i][1]:
            return False
        for j in range(i + 1, n):
            if j == i + 1 or (i == 0 and j == n - 1):
                # adjacent edges share exactly one vertex: only reject fold-backs
                shared = es[i][1] if j == i + 1 else es[i][0]
                o1 = es[i][0] if j == i + 1 else es[i][1]
                o2 = es[j][1] if j == i + 1 else es[j][0]
                if _orient(shared, o1, o2) == 0 and (o1[0] - shared[0]) * (o2[0] - shared[0]) + (
                        o1[1] - shared[1]) * (o2[1] - shared[1]) > 0:
                    return False
                continue
            if segs_intersect(es[i][0], es[i][1], es[j][0], es[j][1]):
                return False
    return abs(polygon_area(v)) > 0


def polyline_length(v):
    return sum(dist(v[i], v[i + 1]) for i in range(len(v) - 1))


def scale_about(v, c, f):
    return [[c[0] + (p[0] - c[0]) * f, c[1] + (p[1] - c[1]) * f] for p in v]


# ---------------------------------------------------------------------------------------------- placed geometry
# geometry dicts: {"k":"poly","v":[[x,y],...]} | {"k":"circle","c":[x,y],"r":r} | {"k":"group","m":[...]}

def geo_scale(g, f):
    if g["k"] == "poly":
        return {"k": "poly", "v": scale_about(g["v"], g.get("c") or polygon_centroid(g["v"]), f), "c": g.get("c")}
    if g["k"] == "circle":
        return {"k": "circle", "c": g["c"], "r": g["r"] * f}
    return {"k": "group", "m": [geo_scale(m, f) for m in g["m"]]}


def geo_contains_point(g, p):
    """(inside, margin): margin = distance to the boundary of the set."""
    if g["k"] == "poly":
        return point_in_polygon(p, g["v"])
    if g["k"] == "circle":
        d = dist(p, g["c"])
        return d <= g["r"], abs(d - g["r"])
    res = [geo_contains_point(m, p) for m in g["m"]]
    return any(r[0] for r in res), min(r[1] for r in res)


def geo_intersects_polygon(g, v):
    if g["k"] == "poly":
        return polygons_intersect(g["v"], v)
    if g["k"] == "circle":
        return disc_intersects_polygon(g["c"], g["r"], v)
    return any(geo_intersects_polygon(m, v) for m in g["m"])


def geo_size(g):
    if g["k"] == "poly":
        xs = [p[0] for p in g["v"]]
        ys = [p[1] for p in g["v"]]
        return max(max(xs) - min(xs), max(ys) - min(ys))
    if g["k"] == "circle":
        return 2 * g["r"]
    return max(geo_size(m) for m in g["m"])


def robust_intersects(g, v, rel=1e-6, circle_shrink=0.002):
    """True / False when the answer is stable under growing/shrinking g about its centre, None inside the band.
    Circles are shrunk by an extra 0.2 % (chord error of a 64-gon export, see DESIGN)."""
    def grow(gg, up):
        if gg["k"] == "group":
            return {"k": "group", "m": [grow(m, up) for m in gg["m"]]}
        size = max(geo_size(gg), 1e-12)
        f = rel + 1e-9 / size
        if gg["k"] == "circle" and not up:
            f += circle_shrink
        return geo_scale(gg, 1 + f if up else max(0.0, 1 - f))
    big = geo_intersects_polygon(grow(g, True), v)
    small = geo_intersects_polygon(grow(g, False), v)
    if big == small:
        return big
    return None
